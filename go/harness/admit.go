package main

import (
	"context"
	"fmt"
	"hash/fnv"
	apierrors "k8s.io/apimachinery/pkg/api/errors"
	apimeta "k8s.io/apimachinery/pkg/api/meta"
	"k8s.io/apimachinery/pkg/types"
	"regexp"
	"strconv"
	"strings"
	"sync"
	"time"

	admissionv1 "k8s.io/api/admission/v1"
	appsv1 "k8s.io/api/apps/v1"
	batchv1 "k8s.io/api/batch/v1"
	corev1 "k8s.io/api/core/v1"
	metav1 "k8s.io/apimachinery/pkg/apis/meta/v1"
	"k8s.io/apimachinery/pkg/runtime"
	"k8s.io/apimachinery/pkg/runtime/schema"
	"k8s.io/pod-security-admission/admission"
	admissionapi "k8s.io/pod-security-admission/admission/api"
	"k8s.io/pod-security-admission/api"
	"k8s.io/pod-security-admission/metrics"
	"k8s.io/pod-security-admission/policy"
)

// ---- fakes

// synthetic evaluator, mirrored by PSA.IO.synEval in the Lean driver
func synVerdict(salt int, lv api.LevelVersion, name string) []policy.CheckResult {
	if lv.Level == api.LevelPrivileged {
		return nil
	}
	h := fnv.New32a()
	fmt.Fprintf(h, "%d|%s|%s", salt, lv.String(), name)
	x := h.Sum32()
	var out []policy.CheckResult
	if x%3 == 0 {
		out = append(out, policy.CheckResult{Allowed: false, ForbiddenReason: "r1-" + lv.String(), ForbiddenDetail: "d1 " + name})
	}
	if x%5 == 0 {
		out = append(out, policy.CheckResult{Allowed: false, ForbiddenReason: "r2-" + lv.String()})
	}
	if x%7 == 0 {
		out = append(out, policy.CheckResult{Allowed: false, ForbiddenReason: "shared"})
	}
	if x%11 == 0 { // a check that forbids without naming a reason (the aggregate then says "unknown forbidden reason")
		out = append(out, policy.CheckResult{Allowed: false, ForbiddenDetail: "anon " + name})
	}
	out = append(out, policy.CheckResult{Allowed: true})
	return out
}

type evWrap struct {
	mu       sync.Mutex
	syn      bool
	salt     int
	real     policy.Evaluator
	calls    []string
	cancelAt int // cancel the context from inside this (0-based) call; -1 = never
	cancel   context.CancelFunc
}

func (e *evWrap) EvaluatePod(lv api.LevelVersion, m *metav1.ObjectMeta, s *corev1.PodSpec) []policy.CheckResult {
	e.mu.Lock()
	n := len(e.calls)
	e.calls = append(e.calls, lv.String()+"/"+m.Name)
	e.mu.Unlock()
	if e.cancelAt >= 0 && n == e.cancelAt && e.cancel != nil {
		e.cancel()
	}
	if e.syn {
		return synVerdict(e.salt, lv, m.Name)
	}
	return e.real.EvaluatePod(lv, m, s)
}

type recorder struct {
	mu sync.Mutex
	ev []string
}

func (r *recorder) RecordEvaluation(d metrics.Decision, lv api.LevelVersion, m metrics.Mode, a api.Attributes) {
	r.mu.Lock()
	r.ev = append(r.ev, fmt.Sprintf("eval/%s/%s/%s", d, lv.String(), m))
	r.mu.Unlock()
}
func (r *recorder) RecordExemption(a api.Attributes) {
	r.mu.Lock()
	r.ev = append(r.ev, "exempt")
	r.mu.Unlock()
}
func (r *recorder) RecordError(f bool, a api.Attributes) {
	r.mu.Lock()
	r.ev = append(r.ev, fmt.Sprintf("error/%v", f))
	r.mu.Unlock()
}

type fakeNS struct {
	labels map[string]string
	err    bool
	kind   int                // flavour of the failure
	cancel context.CancelFunc // the request's cancel function (flavours that let the request run out of time during the lookup)
	meta   int                // state of the namespace object no property mentions (see nsObject)
}

// nsObject: the namespace a lookup returns. Only its labels matter to any property; meta selects a state of the rest of the
// object: 1 = being deleted (deletionTimestamp, finalizer, phase Terminating), 2 = phase Terminating only, 3 = annotations,
// generation, resourceVersion, uid, managed fields of a long-lived namespace, 4 = phase Active spelled out
func nsObject(name string, labels map[string]string, meta int) *corev1.Namespace {
	ns := &corev1.Namespace{ObjectMeta: metav1.ObjectMeta{Name: name, Labels: labels}}
	switch meta {
	case 1:
		ts := metav1.NewTime(time.Unix(1700000000, 0))
		ns.DeletionTimestamp = &ts
		ns.Finalizers = []string{"example.com/hold"}
		ns.Spec.Finalizers = []corev1.FinalizerName{corev1.FinalizerKubernetes}
		ns.Status.Phase = corev1.NamespaceTerminating
		ns.Status.Conditions = []corev1.NamespaceCondition{{Type: corev1.NamespaceContentRemaining, Status: corev1.ConditionTrue}}
	case 2:
		ns.Status.Phase = corev1.NamespaceTerminating
	case 3:
		ns.Annotations = map[string]string{"scheduler.alpha.kubernetes.io/node-selector": "env=prod", "pod-security.kubernetes.io/enforce": "privileged", "kubectl.kubernetes.io/last-applied-configuration": "{}"}
		ns.Generation, ns.ResourceVersion, ns.UID = 12, "99", types.UID("ns-uid")
		ns.ManagedFields = []metav1.ManagedFieldsEntry{{Manager: "kubectl", Operation: metav1.ManagedFieldsOperationUpdate}}
		ns.Spec.Finalizers = []corev1.FinalizerName{corev1.FinalizerKubernetes}
		ns.Status.Phase = corev1.NamespaceActive
	case 4:
		ns.Status.Phase = corev1.NamespaceActive
	}
	return ns
}

// nsErrKinds: ways a namespace lookup fails; the property does not distinguish them
var nsErrKinds = []string{"plain", "notFound", "deadlineExceeded", "apiTimeout", "serverTimeout", "requestCancelledDuringLookup", "canceled"}

func (f fakeNS) GetNamespace(ctx context.Context, name string) (*corev1.Namespace, error) {
	if f.err {
		switch nsErrKinds[f.kind%len(nsErrKinds)] {
		case "notFound":
			return nil, apierrors.NewNotFound(schema.GroupResource{Resource: "namespaces"}, name)
		case "deadlineExceeded":
			return nil, fmt.Errorf("get namespace %q: %w", name, context.DeadlineExceeded)
		case "apiTimeout":
			return nil, apierrors.NewTimeoutError("the lookup timed out", 1)
		case "serverTimeout":
			return nil, apierrors.NewServerTimeout(schema.GroupResource{Resource: "namespaces"}, "get", 1)
		case "requestCancelledDuringLookup":
			if f.cancel != nil {
				f.cancel()
			}
			return nil, ctx.Err()
		case "canceled":
			return nil, context.Canceled
		}
		return nil, fmt.Errorf("boom")
	}
	return nsObject(name, f.labels, f.meta), nil
}

type fakeLister struct {
	pods     []*corev1.Pod
	err      bool
	calls    int
	timeout  time.Duration
	hadDL    bool
	listedNS string
}

func (f *fakeLister) ListPods(ctx context.Context, ns string) ([]*corev1.Pod, error) {
	f.calls++
	f.listedNS = ns
	if d, ok := ctx.Deadline(); ok {
		f.hadDL = true
		f.timeout = time.Until(d)
	}
	if f.err {
		return nil, fmt.Errorf("boom")
	}
	out := make([]*corev1.Pod, len(f.pods))
	copy(out, f.pods)
	return out, nil
}

type attrs struct {
	api.AttributesRecord
	objErr, oldErr bool
}

func (a *attrs) GetObject() (runtime.Object, error) {
	if a.objErr {
		return nil, fmt.Errorf("decode boom")
	}
	return a.AttributesRecord.GetObject()
}
func (a *attrs) GetOldObject() (runtime.Object, error) {
	if a.oldErr {
		return nil, fmt.Errorf("decode boom")
	}
	return a.AttributesRecord.GetOldObject()
}

// ---- a case

type ObjSpec struct {
	Kind       string // "err" | "nil" | "pod" | "namespace" | "controller" | "other"
	Pod        *corev1.Pod
	NSName     string
	Labels     map[string]string
	CtlKind    string // one of controllerKinds
	NoTemplate bool
	// object metadata no property mentions (never sent to the model): generation, resourceVersion, uid, finalizers and, on
	// controllers, labels of the outer object
	MetaGen int64
	MetaRV  string
	// on controllers: the layers AROUND the pod template (the object's own metadata, a CronJob's job template metadata, a
	// Job / ReplicaSet / Deployment selector) carry annotations and labels that would matter if they stood on the template
	OuterMeta bool
}

type AdmitCase struct {
	Defaults            admissionapi.PodSecurityDefaults
	ExNS, ExUsers, ExRC []string
	Res                 string // "pods" | "namespaces" | controller resource | "configmaps"
	Sub                 string
	Op                  admissionv1.Operation
	Name, NS, User      string
	Obj, Old            ObjSpec
	NSLabels            map[string]string
	NSErr               bool
	NSErrKind           int                // index into nsErrKinds
	AttrNoise           int                // request attributes outside every property: 1 = resource version v1beta1, 2 = kind of another API group, 3 = kind version v2
	NSMeta              int                // state of the looked-up namespace object outside its labels (nsObject); never sent to the model
	CtxCancelled        bool               // the request's context is already cancelled when Validate is called
	cancelRequest       context.CancelFunc // set by runGo
	Pods                []*corev1.Pod
	ListErr             bool
	ExpireAfter         int           // -1 none
	Remaining           time.Duration // 0 none
	Syn                 bool
	Salt                int
	StdOracle           bool // ask the model to judge with the Standard's own evaluator (C01)
	Tags                []string
}

var controllerKinds = []string{"podtemplates", "replicationcontrollers", "replicasets", "deployments", "statefulsets", "daemonsets", "jobs", "cronjobs"}

func groupOf(res string) string {
	switch res {
	case "replicasets", "deployments", "statefulsets", "daemonsets":
		return "apps"
	case "jobs", "cronjobs":
		return "batch"
	}
	return ""
}

func wrapController(kind string, p *corev1.Pod, noTemplate bool) runtime.Object {
	t := corev1.PodTemplateSpec{ObjectMeta: p.ObjectMeta, Spec: p.Spec}
	switch kind {
	case "podtemplates":
		return &corev1.PodTemplate{Template: t}
	case "replicationcontrollers":
		if noTemplate {
			return &corev1.ReplicationController{}
		}
		return &corev1.ReplicationController{Spec: corev1.ReplicationControllerSpec{Template: &t}}
	case "replicasets":
		return &appsv1.ReplicaSet{Spec: appsv1.ReplicaSetSpec{Template: t}}
	case "deployments":
		return &appsv1.Deployment{Spec: appsv1.DeploymentSpec{Template: t}}
	case "statefulsets":
		return &appsv1.StatefulSet{Spec: appsv1.StatefulSetSpec{Template: t}}
	case "daemonsets":
		return &appsv1.DaemonSet{Spec: appsv1.DaemonSetSpec{Template: t}}
	case "jobs":
		return &batchv1.Job{Spec: batchv1.JobSpec{Template: t}}
	case "cronjobs":
		return &batchv1.CronJob{Spec: batchv1.CronJobSpec{JobTemplate: batchv1.JobTemplateSpec{Spec: batchv1.JobSpec{Template: t}}}}
	}
	panic(kind)
}

// outerMeta decorates everything around the pod template of a workload object with metadata that the checks would read if
// it stood on the template itself: AppArmor / seccomp annotations for the template's containers (forbidden values where the
// template is clean, permitted values where the template's own are forbidden), pod-security labels, a windows OS label.
// None of it reaches the pods the controller creates, so none of it may change a finding.
func outerMeta(obj runtime.Object, p *corev1.Pod) {
	ann := map[string]string{"seccomp.security.alpha.kubernetes.io/pod": "unconfined", "kubernetes.io/description": "outer"}
	for i, c := range append(append([]corev1.Container{}, p.Spec.InitContainers...), p.Spec.Containers...) {
		k := "container.apparmor.security.beta.kubernetes.io/" + c.Name
		v := []string{"unconfined", "runtime/default", "localhost/x", "bogus"}[i%4]
		if tv, ok := p.Annotations[k]; ok && tv != "runtime/default" && !strings.HasPrefix(tv, "localhost/") {
			v = "runtime/default" // would mask the template's forbidden value
		}
		ann[k] = v
		ann["container.seccomp.security.alpha.kubernetes.io/"+c.Name] = "unconfined"
	}
	lab := map[string]string{"kubernetes.io/os": "windows", "pod-security.kubernetes.io/enforce": "privileged", "app": "outer"}
	if acc, err := apimeta.Accessor(obj); err == nil {
		acc.SetAnnotations(ann)
		acc.SetLabels(lab)
	}
	switch o := obj.(type) {
	case *batchv1.CronJob:
		o.Spec.JobTemplate.ObjectMeta = metav1.ObjectMeta{Name: "job-template", Annotations: ann, Labels: lab}
		o.Spec.Schedule, o.Spec.JobTemplate.Spec.Selector = "* * * * *", &metav1.LabelSelector{MatchLabels: lab}
	case *batchv1.Job:
		o.Spec.Selector = &metav1.LabelSelector{MatchLabels: lab}
	case *appsv1.Deployment:
		o.Spec.Selector = &metav1.LabelSelector{MatchLabels: lab}
	case *appsv1.ReplicaSet:
		o.Spec.Selector = &metav1.LabelSelector{MatchLabels: lab}
	case *appsv1.StatefulSet:
		o.Spec.Selector, o.Spec.ServiceName = &metav1.LabelSelector{MatchLabels: lab}, "svc"
		o.Spec.VolumeClaimTemplates = []corev1.PersistentVolumeClaim{{ObjectMeta: metav1.ObjectMeta{Name: "data", Annotations: ann}}}
		// claim templates named like the template's own volumes (the StatefulSet controller would replace those volumes in
		// the pods it creates; the template is still judged as written) and like its containers
		for i, v := range p.Spec.Volumes {
			if i%3 != 2 {
				o.Spec.VolumeClaimTemplates = append(o.Spec.VolumeClaimTemplates, corev1.PersistentVolumeClaim{ObjectMeta: metav1.ObjectMeta{Name: v.Name}})
			}
		}
		if len(p.Spec.Containers) > 0 {
			o.Spec.VolumeClaimTemplates = append(o.Spec.VolumeClaimTemplates, corev1.PersistentVolumeClaim{ObjectMeta: metav1.ObjectMeta{Name: p.Spec.Containers[0].Name}})
		}
	case *appsv1.DaemonSet:
		o.Spec.Selector = &metav1.LabelSelector{MatchLabels: lab}
	case *corev1.ReplicationController:
		o.Spec.Selector = lab
	}
}

func (o ObjSpec) runtimeObject() runtime.Object {
	obj := o.bareObject()
	if obj == nil || (o.MetaGen == 0 && o.MetaRV == "") {
		return obj
	}
	if acc, err := apimeta.Accessor(obj); err == nil {
		if o.Kind == "pod" {
			obj = o.Pod.DeepCopy()
			acc, _ = apimeta.Accessor(obj)
		}
		acc.SetGeneration(o.MetaGen)
		acc.SetResourceVersion(o.MetaRV)
		if o.MetaRV != "" {
			acc.SetUID(types.UID("uid-" + o.MetaRV))
			acc.SetFinalizers([]string{"example.com/f"})
			if o.MetaGen == 2 || o.MetaGen == 7 { // owned by another object, as objects stamped out by a higher-level controller are
				t := true
				owner := [][3]string{{"apps/v1", "Deployment", "web"}, {"batch/v1", "CronJob", "nightly"}, {"apps/v1", "ReplicaSet", "web-5d4f"}, {"v1", "Node", "n1"}}[int(o.MetaGen+int64(len(o.MetaRV)))%4]
				acc.SetOwnerReferences(append(acc.GetOwnerReferences(), metav1.OwnerReference{APIVersion: owner[0], Kind: owner[1], Name: owner[2], UID: types.UID("owner-" + owner[2]), Controller: &t}))
			}
			if o.MetaGen%2 == 1 { // being deleted, held by the finalizer
				ts := metav1.NewTime(time.Unix(1700000000, 0))
				grace := int64(30)
				acc.SetDeletionTimestamp(&ts)
				acc.SetDeletionGracePeriodSeconds(&grace)
			}
			if o.Kind == "controller" {
				acc.SetLabels(map[string]string{"rev": o.MetaRV})
			}
		}
	}
	return obj
}

func (o ObjSpec) bareObject() runtime.Object {
	switch o.Kind {
	case "pod":
		return o.Pod
	case "namespace":
		return nsObject(o.NSName, o.Labels, int(o.MetaGen)%5)
	case "controller":
		obj := wrapController(o.CtlKind, o.Pod, o.NoTemplate)
		if o.OuterMeta {
			outerMeta(obj, o.Pod)
		}
		return obj
	case "other":
		return &corev1.ConfigMap{}
	}
	return nil
}

func podObjJSON(p *corev1.Pod) J {
	out := J{"name": p.Name, "pod": projectPod(&p.ObjectMeta, &p.Spec)}
	if p.Spec.RuntimeClassName != nil {
		out["rc"] = *p.Spec.RuntimeClassName
	}
	if ref := metav1.GetControllerOfNoCopy(p); ref != nil {
		out["owner"] = string(ref.UID)
	}
	return out
}

func (o ObjSpec) json() any {
	switch o.Kind {
	case "err":
		return J{"err": true}
	case "pod":
		return J{"kind": "pod", "pod": podObjJSON(o.Pod)}
	case "namespace":
		return J{"kind": "namespace", "name": o.NSName, "labels": labelsJSON(o.Labels)}
	case "controller":
		// "ctl": the workload's resource; the model's ExtractPodSpec (Psa/Extract.lean) decides what the controller sees of it
		if o.NoTemplate && o.CtlKind == "replicationcontrollers" {
			return J{"kind": "controller", "ctl": o.CtlKind, "template": nil}
		}
		return J{"kind": "controller", "ctl": o.CtlKind, "template": podObjJSON(o.Pod)}
	case "other":
		return J{"kind": "other"}
	}
	return nil
}

// defaultsPolicy: the default policy a configuration states, read by the harness itself (level names and "latest" / "v1.N"
// spelled out here), NOT through admissionapi.ToPolicy — that function is part of what is being checked, and the expectations
// of the model and of the oracles must not inherit its mistakes
func defaultsPolicy(d admissionapi.PodSecurityDefaults) api.Policy {
	lv := func(level, version string) api.LevelVersion {
		out := api.LevelVersion{Level: api.LevelPrivileged, Version: api.LatestVersion()}
		switch level {
		case "privileged", "baseline", "restricted":
			out.Level = api.Level(level)
		case "":
		default:
			panic("harness: generated default level " + level)
		}
		switch {
		case version == "" || version == "latest":
		case strings.HasPrefix(version, "v1."):
			n, err := strconv.Atoi(version[3:])
			if err != nil {
				panic("harness: generated default version " + version)
			}
			out.Version = api.MajorMinorVersion(1, n)
		default:
			panic("harness: generated default version " + version)
		}
		return out
	}
	return api.Policy{Enforce: lv(d.Enforce, d.EnforceVersion), Audit: lv(d.Audit, d.AuditVersion), Warn: lv(d.Warn, d.WarnVersion)}
}

// normalize: a request whose deadline has already passed (Remaining of a nanosecond) is, for the dry run, a request that is
// cancelled during the first evaluation
func (a *AdmitCase) normalize() {
	if (a.Remaining > 0 && a.Remaining < time.Millisecond) || a.CtxCancelled {
		a.ExpireAfter = 0
	}
}

func (a *AdmitCase) opJSON() J {
	a.normalize()
	res := "other"
	if a.Res == "pods" || a.Res == "namespaces" {
		res = a.Res
	}
	w := J{}
	if a.NSErr {
		w["ns"] = J{"err": true}
	} else {
		w["ns"] = J{"labels": labelsJSON(a.NSLabels)}
	}
	if a.ListErr {
		w["pods"] = J{"err": true}
	} else {
		ps := []J{}
		for _, p := range a.Pods {
			ps = append(ps, podObjJSON(p))
		}
		w["pods"] = ps
	}
	if a.ExpireAfter >= 0 {
		w["expireAfter"] = a.ExpireAfter
	}
	if a.Remaining != 0 {
		w["remaining"] = int64(a.Remaining)
	}
	if a.Syn {
		w["ev"] = J{"kind": "syn", "salt": a.Salt}
	} else if a.StdOracle {
		w["ev"] = J{"kind": "std"}
	} else {
		w["ev"] = J{"kind": "real"}
	}
	return J{"op": "admit",
		"cfg":   J{"defaults": polJSON(defaultsPolicy(a.Defaults)), "exNs": a.ExNS, "exUsers": a.ExUsers, "exRC": a.ExRC},
		"req":   J{"res": res, "sub": a.Sub, "op": string(a.Op), "name": a.Name, "ns": a.NS, "user": a.User, "obj": a.Obj.json(), "old": a.Old.json()},
		"world": w}
}

// AdmitOut is the projection of everything observable about one Validate call.
type AdmitOut struct {
	Allowed     bool       `json:"allowed"`
	Code        int        `json:"code"`
	Causes      [][]string `json:"causes"`
	Message     *string    `json:"message"`
	Warnings    []string   `json:"warnings"`
	AnnExempt   *string    `json:"annExempt"`
	AnnError    bool       `json:"annError"`
	AnnEnforce  *string    `json:"annEnforce"`
	AnnAudit    *string    `json:"annAudit"`
	Metrics     []string   `json:"metrics"`
	EvalCalls   []string   `json:"evalCalls"`
	ListCalls   int        `json:"listCalls"`
	ListTimeout int64      `json:"listTimeout"`
	// not compared with the model
	Reason      string   `json:"-"`
	RawMessage  string   `json:"-"`
	HadDeadline bool     `json:"-"`
	ExtraAnn    []string `json:"-"`
	Panic       string   `json:"-"`
	// the request carried no time limit of its own (no staged expiry, no short deadline) and still took so long that the
	// controller's own one-second dry-run budget may have run out: the machine, not the code, decided the answer
	ClockHit bool `json:"-"`
}

// intendedTimeLimit: the case itself stages an expiry, a cancellation or a deadline shorter than the dry run's own budget
func (a *AdmitCase) intendedTimeLimit() bool {
	return a.ExpireAfter >= 0 || a.CtxCancelled || (a.Remaining != 0 && a.Remaining < 2*time.Second)
}

const wallClockSuspicion = 800 * time.Millisecond

var onlyCheckedRe = regexp.MustCompile(`only checked against the first (\d+) of (\d+) existing pods`)

// cutShort: the answer says the dry run stopped early at a place other than the pod cap, or that the listing failed
func cutShort(o AdmitOut) bool {
	for _, w := range o.Warnings {
		if m := onlyCheckedRe.FindStringSubmatch(w); m != nil && m[1] != "3000" {
			return true
		}
		if strings.Contains(w, "failed to list pods") {
			return true
		}
	}
	return false
}

var invalidValueRe = regexp.MustCompile(`^Invalid value: (".*?"): `)

var realEvaluator policy.Evaluator

func init() {
	var err error
	realEvaluator, err = policy.NewEvaluator(policy.DefaultChecks())
	if err != nil {
		panic(err)
	}
}

// houseExemptions hands the controller its own copies of the three lists (the harness keeps the originals for its oracles),
// housed the ways configurations really arrive: exact-sized slices; slices with spare capacity (what append and the decoders
// produce); windows of one backing array, each with capacity reaching into the next list.
func houseExemptions(ns, users, rcs []string) admissionapi.PodSecurityExemptions {
	switch (len(ns) + 3*len(users) + 5*len(rcs)) % 3 {
	case 0:
		return admissionapi.PodSecurityExemptions{Namespaces: append([]string(nil), ns...), Usernames: append([]string(nil), users...), RuntimeClasses: append([]string(nil), rcs...)}
	case 1:
		spare := func(l []string) []string {
			if l == nil {
				return nil
			}
			return append(make([]string, 0, len(l)+8), l...)
		}
		return admissionapi.PodSecurityExemptions{Namespaces: spare(ns), Usernames: spare(users), RuntimeClasses: spare(rcs)}
	default:
		flat := append(append(append(make([]string, 0, len(ns)+len(users)+len(rcs)+4), ns...), users...), rcs...)
		a, b := len(ns), len(ns)+len(users)
		return admissionapi.PodSecurityExemptions{Namespaces: flat[0:a], Usernames: flat[a:b], RuntimeClasses: flat[b:]}
	}
}

func newAdmission(a *AdmitCase, ev policy.Evaluator, rec metrics.Recorder, lister admission.PodLister) *admission.Admission {
	adm := &admission.Admission{
		Configuration: &admissionapi.PodSecurityConfiguration{Defaults: a.Defaults,
			Exemptions: houseExemptions(a.ExNS, a.ExUsers, a.ExRC)},
		Evaluator: ev, Metrics: rec, PodSpecExtractor: admission.DefaultPodSpecExtractor{},
		NamespaceGetter: fakeNS{labels: a.NSLabels, err: a.NSErr, kind: a.NSErrKind, cancel: a.cancelRequest, meta: a.NSMeta}, PodLister: lister,
	}
	if err := adm.CompleteConfiguration(); err != nil {
		panic(err)
	}
	return adm
}

func (a *AdmitCase) attributes() *attrs {
	kind := schema.GroupVersionKind{Version: "v1", Kind: "Pod"}
	if a.Res == "namespaces" {
		kind.Kind = "Namespace"
	}
	at := &attrs{AttributesRecord: api.AttributesRecord{Name: a.Name, Namespace: a.NS, Kind: kind,
		Resource: schema.GroupVersionResource{Group: groupOf(a.Res), Version: "v1", Resource: a.Res}, Subresource: a.Sub, Operation: a.Op, Username: a.User,
		Object: a.Obj.runtimeObject(), OldObject: a.Old.runtimeObject()}}
	switch a.AttrNoise {
	case 1:
		at.Resource.Version = "v1beta1"
	case 2:
		at.Kind = schema.GroupVersionKind{Group: "apps", Version: "v1", Kind: "Deployment"}
	case 3:
		at.Kind.Version = "v2"
	}
	at.objErr = a.Obj.Kind == "err"
	at.oldErr = a.Old.Kind == "err"
	return at
}

// runGo runs the real admission.Validate on the case with fresh fakes. A run that took suspiciously long without the case
// asking for a time limit is repeated (a busy machine can make the controller's own one-second budget expire).
func (a *AdmitCase) runGo() (out AdmitOut) {
	for try := 0; try < 4; try++ {
		t0 := time.Now()
		out = a.runGoOnce()
		if a.intendedTimeLimit() || a.ListErr || time.Since(t0) < wallClockSuspicion || !cutShort(out) {
			return out
		}
		out.ClockHit = true
	}
	return out
}

func (a *AdmitCase) runGoOnce() (out AdmitOut) {
	a.normalize()
	ev := &evWrap{syn: a.Syn, salt: a.Salt, real: realEvaluator, cancelAt: a.ExpireAfter}
	rec := &recorder{}
	lister := &fakeLister{pods: a.Pods, err: a.ListErr}
	ctx := context.Background()
	var cancel context.CancelFunc
	if a.Remaining != 0 {
		ctx, cancel = context.WithTimeout(ctx, a.Remaining)
	} else {
		ctx, cancel = context.WithCancel(ctx)
	}
	defer cancel()
	a.cancelRequest = cancel
	if a.CtxCancelled {
		cancel()
	}
	adm := newAdmission(a, ev, rec, lister)
	ev.cancel = cancel
	defer func() {
		if r := recover(); r != nil {
			out.Panic = fmt.Sprint(r)
		}
	}()
	resp := adm.Validate(ctx, a.attributes())
	return projectResponse(resp, rec.ev, ev.calls, lister)
}

func projectResponse(resp *admissionv1.AdmissionResponse, events, calls []string, lister *fakeLister) AdmitOut {
	out := AdmitOut{Allowed: resp.Allowed, Causes: [][]string{}, Warnings: []string{}, Metrics: []string{}, EvalCalls: []string{}}
	if resp.Result != nil {
		out.Code = int(resp.Result.Code)
		out.Reason = string(resp.Result.Reason)
		out.RawMessage = resp.Result.Message
		if resp.Result.Code == 403 {
			if i := strings.Index(resp.Result.Message, "violates PodSecurity"); i >= 0 {
				m := resp.Result.Message[i:]
				out.Message = &m
			}
		}
		if resp.Result.Details != nil {
			for _, c := range resp.Result.Details.Causes {
				key := strings.TrimSuffix(strings.TrimPrefix(c.Field, "metadata.labels["), "]")
				bad := ""
				if m := invalidValueRe.FindStringSubmatch(c.Message); m != nil {
					if u, err := strconv.Unquote(m[1]); err == nil {
						bad = u
					}
				}
				out.Causes = append(out.Causes, []string{key, bad})
			}
		}
	}
	out.Warnings = append(out.Warnings, resp.Warnings...)
	for k, v := range resp.AuditAnnotations {
		v := v
		switch k {
		case api.ExemptionReasonAnnotationKey:
			out.AnnExempt = &v
		case "error":
			out.AnnError = true
		case api.EnforcedPolicyAnnotationKey:
			out.AnnEnforce = &v
		case api.AuditViolationsAnnotationKey:
			out.AnnAudit = &v
		default:
			out.ExtraAnn = append(out.ExtraAnn, k)
		}
	}
	out.Metrics = append(out.Metrics, events...)
	out.EvalCalls = append(out.EvalCalls, calls...)
	if lister != nil {
		out.ListCalls = lister.calls
		out.ListTimeout = int64(lister.timeout)
		out.HadDeadline = lister.hadDL
	}
	return out
}

// leanAdmit decodes the driver's answer into the same struct
func leanAdmit(j J) AdmitOut {
	var o AdmitOut
	o.Allowed, _ = j["allowed"].(bool)
	if f, ok := j["code"].(float64); ok {
		o.Code = int(f)
	}
	o.Causes = [][]string{}
	if arr, ok := j["causes"].([]any); ok {
		for _, x := range arr {
			p := x.([]any)
			o.Causes = append(o.Causes, []string{p[0].(string), p[1].(string)})
		}
	}
	strp := func(k string) *string {
		if s, ok := j[k].(string); ok {
			return &s
		}
		return nil
	}
	strs := func(k string) []string {
		out := []string{}
		if arr, ok := j[k].([]any); ok {
			for _, x := range arr {
				out = append(out, x.(string))
			}
		}
		return out
	}
	o.Message = strp("message")
	o.Warnings = strs("warnings")
	o.AnnExempt = strp("annExempt")
	o.AnnError, _ = j["annError"].(bool)
	o.AnnEnforce = strp("annEnforce")
	o.AnnAudit = strp("annAudit")
	o.Metrics = strs("metrics")
	o.EvalCalls = strs("evalCalls")
	if f, ok := j["listCalls"].(float64); ok {
		o.ListCalls = int(f)
	}
	if f, ok := j["listTimeout"].(float64); ok {
		o.ListTimeout = int64(f)
	}
	return o
}

func sptr(p *string) string {
	if p == nil {
		return "<nil>"
	}
	return *p
}

// diffAdmit compares the fields selected by proj ("allowed","code","causes","message","warnings","ann","metrics","evalCalls","listCalls","timeout")
func diffAdmit(g, l AdmitOut, proj string) []string {
	var d []string
	has := func(k string) bool { return strings.Contains(" "+proj+" ", " "+k+" ") }
	if has("allowed") && g.Allowed != l.Allowed {
		d = append(d, fmt.Sprintf("allowed: go=%v model=%v", g.Allowed, l.Allowed))
	}
	if has("code") && g.Code != l.Code {
		d = append(d, fmt.Sprintf("code: go=%d model=%d", g.Code, l.Code))
	}
	if has("causes") && canon(g.Causes) != canon(l.Causes) {
		d = append(d, fmt.Sprintf("causes: go=%v model=%v", g.Causes, l.Causes))
	}
	if has("message") && sptr(g.Message) != sptr(l.Message) {
		d = append(d, fmt.Sprintf("message: go=%q model=%q", sptr(g.Message), sptr(l.Message)))
	}
	if has("warnings") && canon(g.Warnings) != canon(l.Warnings) {
		d = append(d, fmt.Sprintf("warnings: go=%q model=%q", g.Warnings, l.Warnings))
	}
	if has("nwarnings") && len(g.Warnings) != len(l.Warnings) {
		d = append(d, fmt.Sprintf("number of warnings: go=%d model=%d", len(g.Warnings), len(l.Warnings)))
	}
	if has("ann") {
		if sptr(g.AnnExempt) != sptr(l.AnnExempt) {
			d = append(d, fmt.Sprintf("exempt annotation: go=%s model=%s", sptr(g.AnnExempt), sptr(l.AnnExempt)))
		}
		if g.AnnError != l.AnnError {
			d = append(d, fmt.Sprintf("error annotation: go=%v model=%v", g.AnnError, l.AnnError))
		}
		if sptr(g.AnnEnforce) != sptr(l.AnnEnforce) {
			d = append(d, fmt.Sprintf("enforce-policy annotation: go=%s model=%s", sptr(g.AnnEnforce), sptr(l.AnnEnforce)))
		}
	}
	if has("audit") && sptr(g.AnnAudit) != sptr(l.AnnAudit) {
		d = append(d, fmt.Sprintf("audit-violations annotation: go=%s model=%s", sptr(g.AnnAudit), sptr(l.AnnAudit)))
	}
	if has("auditPresence") && (g.AnnAudit == nil) != (l.AnnAudit == nil) {
		d = append(d, fmt.Sprintf("audit-violations presence: go=%v model=%v", g.AnnAudit != nil, l.AnnAudit != nil))
	}
	if has("metrics") && canon(g.Metrics) != canon(l.Metrics) {
		d = append(d, fmt.Sprintf("metric events: go=%v model=%v", g.Metrics, l.Metrics))
	}
	if has("evalCalls") && canon(g.EvalCalls) != canon(l.EvalCalls) {
		d = append(d, fmt.Sprintf("evaluator calls: go=%v model=%v", g.EvalCalls, l.EvalCalls))
	}
	if has("nEvalCalls") && len(g.EvalCalls) != len(l.EvalCalls) {
		d = append(d, fmt.Sprintf("number of evaluator calls: go=%d model=%d", len(g.EvalCalls), len(l.EvalCalls)))
	}
	if has("listCalls") && g.ListCalls != l.ListCalls {
		d = append(d, fmt.Sprintf("list calls: go=%d model=%d", g.ListCalls, l.ListCalls))
	}
	if has("timeout") && g.ListCalls == 1 && l.ListCalls == 1 {
		dt := g.ListTimeout - l.ListTimeout
		if dt < 0 {
			dt = -dt
		}
		if dt > int64(60*time.Millisecond) {
			d = append(d, fmt.Sprintf("dry-run timeout seen by the lister: go=%v model=%v", time.Duration(g.ListTimeout), time.Duration(l.ListTimeout)))
		}
	}
	return d
}

// ---- history: the requests of a group through ONE controller

// histDeps: the dependencies of a long-lived controller; what they answer is switched per request (sequential use only), so
// that everything a response can legitimately depend on is the request's own, and only the controller is shared
type histDeps struct {
	ns     fakeNS
	lister *fakeLister
	ev     *evWrap
	rec    *recorder
}

func (h *histDeps) GetNamespace(ctx context.Context, name string) (*corev1.Namespace, error) {
	return h.ns.GetNamespace(ctx, name)
}
func (h *histDeps) ListPods(ctx context.Context, ns string) ([]*corev1.Pod, error) {
	return h.lister.ListPods(ctx, ns)
}
func (h *histDeps) EvaluatePod(lv api.LevelVersion, m *metav1.ObjectMeta, s *corev1.PodSpec) []policy.CheckResult {
	return h.ev.EvaluatePod(lv, m, s)
}
func (h *histDeps) RecordEvaluation(d metrics.Decision, lv api.LevelVersion, m metrics.Mode, a api.Attributes) {
	h.rec.RecordEvaluation(d, lv, m, a)
}
func (h *histDeps) RecordExemption(a api.Attributes)     { h.rec.RecordExemption(a) }
func (h *histDeps) RecordError(f bool, a api.Attributes) { h.rec.RecordError(f, a) }

// runHistory sends the group's requests, in the given order, to one controller built for the group's configuration and
// returns each response (indexed like the group)
func runHistory(group []*AdmitCase, order []int) []AdmitOut {
	h := &histDeps{}
	lead := group[0]
	adm := &admission.Admission{
		Configuration: &admissionapi.PodSecurityConfiguration{Defaults: lead.Defaults,
			Exemptions: houseExemptions(lead.ExNS, lead.ExUsers, lead.ExRC)},
		Evaluator: h, Metrics: h, PodSpecExtractor: admission.DefaultPodSpecExtractor{}, NamespaceGetter: h, PodLister: h,
	}
	if err := adm.CompleteConfiguration(); err != nil {
		panic(err)
	}
	outs := make([]AdmitOut, len(group))
	for _, i := range order {
		a := group[i]
		a.normalize()
		func() {
			ctx := context.Background()
			var cancel context.CancelFunc
			if a.Remaining != 0 {
				ctx, cancel = context.WithTimeout(ctx, a.Remaining)
			} else {
				ctx, cancel = context.WithCancel(ctx)
			}
			defer cancel()
			h.ev = &evWrap{syn: a.Syn, salt: a.Salt, real: realEvaluator, cancelAt: a.ExpireAfter, cancel: cancel}
			h.rec = &recorder{}
			h.lister = &fakeLister{pods: a.Pods, err: a.ListErr}
			h.ns = fakeNS{labels: a.NSLabels, err: a.NSErr, kind: a.NSErrKind, cancel: cancel, meta: a.NSMeta}
			if a.CtxCancelled {
				cancel()
			}
			defer func() {
				if r := recover(); r != nil {
					outs[i].Panic = fmt.Sprint(r)
				}
			}()
			t0 := time.Now()
			resp := adm.Validate(ctx, a.attributes())
			outs[i] = projectResponse(resp, h.rec.ev, h.ev.calls, h.lister)
			outs[i].ClockHit = !a.intendedTimeLimit() && !a.ListErr && time.Since(t0) >= wallClockSuspicion && cutShort(outs[i])
		}()
	}
	return outs
}

package main

import (
	"bytes"
	"encoding/json"
	"fmt"
	"io"
	"net/http"
	"net/http/httptest"
	"net/url"
	"time"

	admissionv1 "k8s.io/api/admission/v1"
	"k8s.io/pod-security-admission/admission"
	admissionapi "k8s.io/pod-security-admission/admission/api"
	"k8s.io/pod-security-admission/api"
	"k8s.io/pod-security-admission/cmd/webhook/server"
)

// runC12Webhook: the request's deadline as it reaches a deployed webhook — the `timeout` query parameter the API server
// appends to the webhook URL. For a namespace update that triggers the dry run, the pod lister must see a deadline of the
// lesser of one second and half of that timeout; a missing or malformed parameter is no deadline (one second). The handler
// and the controller are the real ones; only the lister (which records the deadline it is given) is the harness's.
func runC12Webhook(c *Ctx) {
	namespaces := nsByName{"team": {}}
	lister := &fakeLister{pods: genPopulation(NewRng(c.Seed+1212), 4, nil)}
	adm := &admission.Admission{
		Configuration: &admissionapi.PodSecurityConfiguration{Defaults: admissionapi.PodSecurityDefaults{Enforce: "privileged", EnforceVersion: "latest", Audit: "privileged", AuditVersion: "latest", Warn: "privileged", WarnVersion: "latest"}},
		Evaluator:     realEvaluator, Metrics: &recorder{}, PodSpecExtractor: admission.DefaultPodSpecExtractor{}, NamespaceGetter: namespaces, PodLister: lister}
	if err := adm.CompleteConfiguration(); err != nil {
		panic(err)
	}
	ts := httptest.NewServer(http.HandlerFunc(server.NewServerForVerif(adm).HandleValidate))
	defer ts.Close()
	type tc struct {
		param string        // the value of ?timeout= ("" = parameter absent)
		d     time.Duration // what it denotes; 0 = no deadline
	}
	cases := []tc{{"", 0}, {"10s", 10 * time.Second}, {"30s", 30 * time.Second}, {"3s", 3 * time.Second}, {"2s", 2 * time.Second}, {"2100ms", 2100 * time.Millisecond},
		{"1900ms", 1900 * time.Millisecond}, {"1s", time.Second}, {"1.5s", 1500 * time.Millisecond}, {"600ms", 600 * time.Millisecond}, {"400ms", 400 * time.Millisecond},
		{"1m", time.Minute}, {"0.5m", 30 * time.Second}, {"1s500ms", 1500 * time.Millisecond},
		{"bogus", 0}, {"5", 0}, {"10", 0}, {"1 s", 0}, {"s", 0}, {"1sec", 0}}
	rounds := sizes(c, 2, 12)
	var ops []J
	var seen []int64
	var ins []J
	for round := 0; round < rounds; round++ {
		for i, t := range cases {
			a := &AdmitCase{Res: "namespaces", Op: admissionv1.Update, Name: "team", NS: "team", User: "u", ExpireAfter: -1, Remaining: t.d, Pods: lister.pods,
				Defaults: admissionapi.PodSecurityDefaults{Enforce: "privileged", EnforceVersion: "latest", Audit: "privileged", AuditVersion: "latest", Warn: "privileged", WarnVersion: "latest"},
				Obj:      ObjSpec{Kind: "namespace", NSName: "team", Labels: map[string]string{api.EnforceLevelLabel: []string{"baseline", "restricted"}[(round+i)%2]}},
				Old:      ObjSpec{Kind: "namespace", NSName: "team", Labels: map[string]string{}}}
			target := ts.URL + "/"
			if t.param != "" {
				target += "?timeout=" + url.QueryEscape(t.param)
			}
			lister.calls, lister.hadDL, lister.timeout = 0, false, 0
			resp, err := http.Post(target, "application/json", bytes.NewReader(a.review(fmt.Sprintf("t-%d-%d", round, i), 0)))
			c.Eval(1)
			in := J{"url": "/?timeout=" + t.param, "namespaceUpdate": a.Obj.Labels}
			if err != nil {
				c.Violate(Finding{Desc: "no answer to a namespace update sent with ?timeout=" + t.param + ": " + err.Error(), Key: "webhook-timeout-no-answer", Input: in})
				continue
			}
			b, _ := io.ReadAll(resp.Body)
			resp.Body.Close()
			var rv admissionv1.AdmissionReview
			if resp.StatusCode != 200 || json.Unmarshal(b, &rv) != nil || rv.Response == nil || !rv.Response.Allowed {
				c.Violate(Finding{Desc: fmt.Sprintf("a namespace update sent with ?timeout=%s is not answered with an allowed response (status %d)", t.param, resp.StatusCode), Key: "webhook-timeout-not-allowed", Input: in})
				continue
			}
			if lister.calls != 1 {
				c.Violate(Finding{Desc: fmt.Sprintf("a namespace update that tightens enforce, sent with ?timeout=%s, listed the pods %d times", t.param, lister.calls), Key: "webhook-timeout-list-calls", Input: in})
				continue
			}
			limit := time.Second
			if t.d > 0 && t.d/2 < limit {
				limit = t.d / 2
			}
			c.Tag("webhookTimeout." + map[bool]string{true: "halfOfRemaining", false: "oneSecond"}[limit < time.Second])
			if !lister.hadDL || lister.timeout > limit+2*time.Millisecond {
				c.Violate(Finding{Desc: fmt.Sprintf("webhook request with ?timeout=%s: the dry run was given %v (deadline set: %v); the property allows at most the lesser of one second and half of the request's remaining time = %v",
					t.param, lister.timeout, lister.hadDL, limit), Key: "webhook-timeout-too-long", Input: in, Go: J{"listerDeadlineIn": lister.timeout.String()}})
				continue
			}
			ops = append(ops, a.opJSON())
			seen = append(seen, int64(lister.timeout))
			ins = append(ins, in)
		}
	}
	for k, o := range c.Lean(ops) {
		l := leanAdmit(o)
		dt := seen[k] - l.ListTimeout
		if dt < 0 {
			dt = -dt
		}
		if l.ListCalls != 1 || dt > int64(80*time.Millisecond) {
			c.Disagree(Finding{Desc: "dry-run time budget of a webhook request differs from the model", Input: ins[k], Go: time.Duration(seen[k]).String(), Lean: J{"listCalls": l.ListCalls, "timeout": time.Duration(l.ListTimeout).String()}})
		}
	}
}

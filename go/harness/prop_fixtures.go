package main

import (
	"fmt"
	"os"
	"path/filepath"
	"sort"
	"strings"

	corev1 "k8s.io/api/core/v1"
	apiequality "k8s.io/apimachinery/pkg/api/equality"
	metav1 "k8s.io/apimachinery/pkg/apis/meta/v1"
	"k8s.io/pod-security-admission/policy"
	pstest "k8s.io/pod-security-admission/test"
	"sigs.k8s.io/yaml"
)

func init() {
	props["C20"] = runC20
	props["FIXTURES-GEN"] = func(c *Ctx) { genFixtureLean(c, verifDir()+"/lean/Psa/Fixtures") }
}

// apiDefaultGo: the API-server defaulting that touches what the checks read: a volume with no source becomes an emptyDir.
func apiDefaultGo(p *corev1.Pod) *corev1.Pod {
	q := p.DeepCopy()
	for i := range q.Spec.Volumes {
		if len(volumeSources(&q.Spec.Volumes[i])) == 0 {
			q.Spec.Volumes[i].EmptyDir = &corev1.EmptyDirVolumeSource{}
		}
	}
	return q
}

func overridersOf(check string) map[string]bool {
	out := map[string]bool{}
	for _, c := range policy.DefaultChecks() {
		for _, v := range c.Versions {
			for _, o := range v.OverrideCheckIDs {
				if string(o) == check {
					out[string(c.ID)] = true
				}
			}
		}
	}
	return out
}

type dedupFixture struct {
	level string
	minor int
	check string
	pass  bool
	proj  J
	name  string
}

func signature(ev *recEvaluator, level string, minor int) string {
	rs, _ := ev.Eval(mkLV(level, minor), &corev1.Pod{})
	var names []string
	for _, r := range rs {
		names = append(names, r.Rev)
	}
	return strings.Join(names, ",")
}

func distinctFixtures() ([]dedupFixture, []pstest.VerifFixture, int) {
	fx, newest, err := pstest.VerifFixtures()
	if err != nil {
		fmt.Fprintln(os.Stderr, "VerifFixtures:", err)
		os.Exit(3)
	}
	ev := newRecEvaluator()
	seen := map[string]bool{}
	var out []dedupFixture
	for _, f := range fx {
		proj := projectPod(&f.Pod.ObjectMeta, &f.Pod.Spec)
		key := canon([]any{f.Level, signature(ev, f.Level, f.Minor), f.Check, f.Pass, proj})
		if seen[key] {
			continue
		}
		seen[key] = true
		out = append(out, dedupFixture{f.Level, f.Minor, f.Check, f.Pass, proj, f.Name})
	}
	return out, fx, newest
}

// fixtureProperty: C20 as stated, on the real evaluator: a pass fixture is allowed, a fail fixture is rejected by the control it
// is named for (or the restricted control that overrides it), once API-server defaulting is applied
func fixtureProperty(c *Ctx, ev *recEvaluator, f pstest.VerifFixture, minors []int, when string) {
	pod := apiDefaultGo(f.Pod)
	in := J{"level": f.Level, "version": fmt.Sprintf("v1.%d", f.Minor), "check": f.Check, "kind": map[bool]string{true: "pass", false: "fail"}[f.Pass], "name": f.Name}
	if when != "" {
		in["when"] = when
	}
	for _, m := range minors {
		rs, _ := ev.Eval(mkLV(f.Level, m), pod)
		c.Eval(1)
		if f.Pass {
			if !allAllowed(rs) {
				c.Violate(Finding{Desc: fmt.Sprintf("pass fixture %s/%s/pass/%s is rejected at %s%s: %s", f.Level, fmt.Sprintf("v1.%d", f.Minor), f.Name, verName(f.Level, m), when, bits(rs)), Key: "pass-rejected", Input: in})
			}
		} else {
			ov := overridersOf(f.Check)
			hit := false
			for _, r := range rs {
				id := strings.Split(r.Rev, "@")[0]
				if !r.Allowed && (id == f.Check || ov[id]) {
					hit = true
				}
			}
			if !hit {
				c.Violate(Finding{Desc: fmt.Sprintf("fail fixture %s/v1.%d/fail/%s is not rejected by %s (or its overrider) at %s%s: %s", f.Level, f.Minor, f.Name, f.Check, verName(f.Level, m), when, bits(rs)), Key: "fail-not-rejected", Input: in})
			}
		}
	}
}

func runC20(c *Ctx) {
	dist, fx, newest := distinctFixtures()
	ev := newRecEvaluator()
	c.Note(fmt.Sprintf("%d fixtures, %d distinct (level, revision signature, check, kind, pod); newest tested version v1.%d", len(fx), len(dist), newest))
	// 1. the property on the real evaluator, every fixture, its own level and version (thorough: also newest+1, newest+2, latest)
	extra := []int{}
	if c.Thorough {
		extra = []int{newest + 1, newest + 2, -1}
	}
	expected := map[string]bool{"testdata/README.md": true}
	for _, f := range fx {
		minors := []int{f.Minor}
		if f.Minor == newest {
			minors = append(minors, extra...)
		}
		in := J{"level": f.Level, "version": fmt.Sprintf("v1.%d", f.Minor), "check": f.Check, "kind": map[bool]string{true: "pass", false: "fail"}[f.Pass], "name": f.Name}
		fixtureProperty(c, ev, f, minors, "")
		// 2. serialized testdata describes the same pod
		dir := "pass"
		if !f.Pass {
			dir = "fail"
		}
		rel := filepath.Join("testdata", f.Level, fmt.Sprintf("v1.%d", f.Minor), dir, f.Name+".yaml")
		expected[rel] = true
		data, err := os.ReadFile(filepath.Join(repoDir()+"/test", rel))
		if err != nil {
			c.Violate(Finding{Desc: "published fixture file missing: " + rel, Key: "file-missing", Input: in})
			continue
		}
		var fromYAML corev1.Pod
		if err := yaml.UnmarshalStrict(data, &fromYAML); err != nil {
			c.Violate(Finding{Desc: fmt.Sprintf("published fixture %s does not decode: %v", rel, err), Key: "file-undecodable", Input: in})
			continue
		}
		fromYAML.TypeMeta = metav1.TypeMeta{}
		want := f.Pod.DeepCopy()
		want.Name = f.Name
		if !apiequality.Semantic.DeepEqual(&fromYAML, want) {
			c.Violate(Finding{Desc: "serialized fixture and in-memory generator describe different pods: " + rel, Key: "yaml-differs", Input: in, Go: J{"yaml": fromYAML, "generated": want}})
		}
		c.Eval(1)
	}
	filepath.Walk(repoDir()+"/test/testdata", func(path string, info os.FileInfo, err error) error {
		if err == nil && !info.IsDir() {
			rel, _ := filepath.Rel(repoDir()+"/test", path)
			if !expected[rel] {
				c.Violate(Finding{Desc: "serialized fixture without a generator: " + rel, Key: "file-extra", Input: rel})
			}
		}
		return nil
	})
	// 3. correspondence: the model evaluates every distinct fixture like the real evaluator, and judges it like the property
	var ops []J
	for _, d := range dist {
		pod := J{}
		for k, v := range d.proj {
			pod[k] = v
		}
		ops = append(ops, J{"op": "fixture", "level": d.level, "version": minorJSON(d.minor), "check": d.check, "pass": d.pass, "pod": d.proj})
		c.Nontrivial(canon(ops[len(ops)-1]))
	}
	outs := c.Lean(ops)
	byKey := map[string]pstest.VerifFixture{}
	for _, f := range fx {
		byKey[fmt.Sprintf("%s|%d|%s|%v|%s", f.Level, f.Minor, f.Check, f.Pass, f.Name)] = f
	}
	for i, o := range outs {
		d := dist[i]
		f := byKey[fmt.Sprintf("%s|%d|%s|%v|%s", d.level, d.minor, d.check, d.pass, d.name)]
		rs, _ := ev.Eval(mkLV(d.level, d.minor), apiDefaultGo(f.Pod))
		lr := leanResults(o)
		if bits(rs) != bits(lr) {
			c.Disagree(Finding{Desc: fmt.Sprintf("fixture %s/v1.%d/%s: per-check verdicts differ: Go [%s] model [%s]", d.level, d.minor, d.name, bits(rs), bits(lr)), Input: ops[i]})
		}
		if ok, _ := o["ok"].(bool); !ok {
			c.Disagree(Finding{Desc: fmt.Sprintf("fixture %s/v1.%d/%s: the model judges the fixture not to agree with the evaluator", d.level, d.minor, d.name), Input: ops[i]})
		}
	}
	if len(dist) > 0 {
		c.Sample(ops[0])
	}
	// 4. the property once more, in reverse order, on the same long-lived evaluator (as the webhook keeps one): what earlier
	// evaluations at other levels and versions left behind in the evaluator must not change a fixture's verdict
	for i := len(fx) - 1; i >= 0; i-- {
		fixtureProperty(c, ev, fx[i], []int{fx[i].Minor}, " (second pass, reverse order, same evaluator)")
	}
	// 5. the generators once more: enumerating the fixtures a second time in this process must give the same pods (the ones
	// just compared with the serialized testdata)
	if fx2, _, err := pstest.VerifFixtures(); err != nil {
		c.Violate(Finding{Desc: "second enumeration of the fixtures fails: " + err.Error(), Key: "generators-not-repeatable"})
	} else if len(fx2) != len(fx) {
		c.Violate(Finding{Desc: fmt.Sprintf("second enumeration of the fixtures yields %d fixtures, the first %d", len(fx2), len(fx)), Key: "generators-not-repeatable"})
	} else {
		shown := 0
		for i := range fx {
			c.Eval(1)
			a, b := fx[i], fx2[i]
			if a.Level != b.Level || a.Minor != b.Minor || a.Check != b.Check || a.Pass != b.Pass || a.Name != b.Name || !apiequality.Semantic.DeepEqual(a.Pod, b.Pod) {
				if shown++; shown <= 3 {
					c.Violate(Finding{Desc: fmt.Sprintf("the in-memory generator gives a different pod for %s/v1.%d/%s/%s when the fixtures are enumerated a second time (the first one matched the serialized testdata)", a.Level, a.Minor, map[bool]string{true: "pass", false: "fail"}[a.Pass], a.Name),
						Key: "generators-not-repeatable", Input: J{"level": a.Level, "version": fmt.Sprintf("v1.%d", a.Minor), "check": a.Check, "name": a.Name}, Go: J{"first": a.Pod, "second": b.Pod}})
				}
			}
		}
	}
	// 6. and once more after the process-wide switch has a history
	c20AfterSwitchHistory(c, ev, fx)
	c.Hist["fixtures"] = len(fx)
	c.Hist["distinct"] = len(dist)
}

// ---- Lean term generation (Psa/Fixtures/F<k>.lean), consumed by Props/C20.lean

func leanOpt(v any, f func(any) string) string {
	if v == nil {
		return "none"
	}
	return "some (" + f(v) + ")"
}

func lstr(v any) string { return leanStrLit(v.(string)) }

func leanStrLit(s string) string {
	var b strings.Builder
	b.WriteString(`b!"`)
	for _, ch := range []byte(s) {
		switch {
		case ch == '"':
			b.WriteString(`\"`)
		case ch == '\\':
			b.WriteString(`\\`)
		case ch < 32 || ch == 127:
			fmt.Fprintf(&b, `\x%02x`, ch)
		default:
			b.WriteByte(ch)
		}
	}
	b.WriteString(`"`)
	return b.String()
}

func lbool(v any) string { return fmt.Sprint(v.(bool)) }

func lstrs(v any) string {
	parts := []string{}
	switch x := v.(type) {
	case []string:
		for _, s := range x {
			parts = append(parts, leanStrLit(s))
		}
	case []any:
		for _, s := range x {
			parts = append(parts, leanStrLit(s.(string)))
		}
	}
	return "[" + strings.Join(parts, ", ") + "]"
}

func leanSELinux(v any) string {
	m := v.(J)
	return fmt.Sprintf("{ type := %s, user := %s, role := %s }", lstr(m["type"]), lstr(m["user"]), lstr(m["role"]))
}

func leanHostProcess(v any) string {
	switch v.(int) {
	case 0:
		return "none"
	case 1:
		return "some none"
	case 2:
		return "some (some false)"
	}
	return "some (some true)"
}

func leanSC(v any) string {
	m, ok := v.(J)
	if !ok {
		return "none"
	}
	fields := []string{}
	add := func(name, val string) {
		if val != "none" {
			fields = append(fields, name+" := "+val)
		}
	}
	add("privileged", leanOpt(m["privileged"], lbool))
	add("allowPrivEsc", leanOpt(m["ape"], lbool))
	if c, ok := m["caps"].(J); ok {
		add("caps", fmt.Sprintf("some { add := %s, drop := %s }", lstrs(c["add"]), lstrs(c["drop"])))
	}
	add("procMount", leanOpt(m["procMount"], lstr))
	add("runAsNonRoot", leanOpt(m["runAsNonRoot"], lbool))
	add("runAsUser", leanOpt(m["runAsUser"], func(x any) string { return fmt.Sprint(x) }))
	add("seccompType", leanOpt(m["seccomp"], lstr))
	add("appArmorType", leanOpt(m["appArmor"], lstr))
	add("seLinux", leanOpt(m["seLinux"], leanSELinux))
	add("hostProcess", leanHostProcess(m["hostProcess"]))
	return "some { " + strings.Join(fields, ", ") + " }"
}

func leanContainers(v any) string {
	parts := []string{}
	for _, c := range v.([]J) {
		ports := []string{}
		for _, p := range c["hostPorts"].([]int) {
			ports = append(ports, fmt.Sprint(p))
		}
		parts = append(parts, fmt.Sprintf("{ name := %s, image := %s, hostPorts := [%s], sc := %s }", lstr(c["name"]), lstr(c["image"]), strings.Join(ports, ", "), leanSC(c["sc"])))
	}
	return "[" + strings.Join(parts, ", ") + "]"
}

func leanPodSC(v any) string {
	m, ok := v.(J)
	if !ok {
		return "none"
	}
	fields := []string{}
	add := func(name, val string) {
		if val != "none" && val != "[]" {
			fields = append(fields, name+" := "+val)
		}
	}
	add("runAsNonRoot", leanOpt(m["runAsNonRoot"], lbool))
	add("runAsUser", leanOpt(m["runAsUser"], func(x any) string { return fmt.Sprint(x) }))
	add("seccompType", leanOpt(m["seccomp"], lstr))
	add("appArmorType", leanOpt(m["appArmor"], lstr))
	add("seLinux", leanOpt(m["seLinux"], leanSELinux))
	add("hostProcess", leanHostProcess(m["hostProcess"]))
	add("sysctls", lstrs(m["sysctls"]))
	return "some { " + strings.Join(fields, ", ") + " }"
}

func leanPod(p J) string {
	fields := []string{}
	add := func(name, val, dflt string) {
		if val != dflt {
			fields = append(fields, name+" := "+val)
		}
	}
	anns := []string{}
	for _, kv := range p["ann"].([][]string) {
		anns = append(anns, fmt.Sprintf("(%s, %s)", leanStrLit(kv[0]), leanStrLit(kv[1])))
	}
	add("annotations", "["+strings.Join(anns, ", ")+"]", "[]")
	add("hostNetwork", lbool(p["hostNetwork"]), "false")
	add("hostPID", lbool(p["hostPID"]), "false")
	add("hostIPC", lbool(p["hostIPC"]), "false")
	add("hostUsers", leanOpt(p["hostUsers"], lbool), "none")
	if os, ok := p["os"]; ok {
		add("os", "some "+lstr(os), "none")
	}
	add("sc", leanPodSC(p["sc"]), "none")
	add("initContainers", leanContainers(p["init"]), "[]")
	add("containers", leanContainers(p["ctrs"]), "[]")
	add("ephemeralContainers", leanContainers(p["eph"]), "[]")
	vols := []string{}
	for _, v := range p["vols"].([]J) {
		srcs := []string{}
		for _, s := range v["sources"].([]string) {
			srcs = append(srcs, leanVolKind(s))
		}
		vols = append(vols, fmt.Sprintf("{ name := %s, sources := [%s] }", lstr(v["name"]), strings.Join(srcs, ", ")))
	}
	add("volumes", "["+strings.Join(vols, ", ")+"]", "[]")
	return "{ " + strings.Join(fields, ", ") + " }"
}

var knownVolKinds = map[string]bool{"configMap": true, "csi": true, "downwardAPI": true, "emptyDir": true, "ephemeral": true, "persistentVolumeClaim": true, "projected": true, "secret": true,
	"hostPath": true, "gcePersistentDisk": true, "awsElasticBlockStore": true, "gitRepo": true, "nfs": true, "iscsi": true, "glusterfs": true, "rbd": true, "flexVolume": true, "cinder": true,
	"cephfs": true, "flocker": true, "fc": true, "azureFile": true, "vsphereVolume": true, "quobyte": true, "azureDisk": true, "photonPersistentDisk": true, "portworxVolume": true, "scaleIO": true, "storageos": true}

func leanVolKind(s string) string {
	if knownVolKinds[s] {
		return "." + s
	}
	return ".other"
}

const fixtureChunks = 16

func genFixtureLean(c *Ctx, dir string) {
	dist, fx, _ := distinctFixtures()
	sort.SliceStable(dist, func(i, j int) bool { return canon(dist[i].proj) < canon(dist[j].proj) }) // similar pods together
	os.MkdirAll(dir, 0o755)
	chunks := make([][]string, fixtureChunks)
	for i, d := range dist {
		lvl := "." + d.level
		chunks[i%fixtureChunks] = append(chunks[i%fixtureChunks],
			fmt.Sprintf("  { level := %s, minor := %d, check := %s, pass := %v, pod := %s }", lvl, d.minor, leanStrLit(d.check), d.pass, leanPod(d.proj)))
	}
	for k := 0; k < fixtureChunks; k++ {
		body := fmt.Sprintf(`import Psa.FixtureCheck
/-! GENERATED by the harness (FIXTURES-GEN) from package test of /repo — do not edit. Chunk %d of %d of the distinct
    conformance fixtures (level, revision signature of the version, control, pass/fail, pod). -/
namespace PSA.Fixtures
open PSA

def chunk%d : List Fixture := [
%s
]

/-- every fixture of this chunk agrees with the evaluator: kernel evaluation of the whole (finite) table -/
theorem chunk%d_ok : chunk%d.all fixtureOk = true := by decide

end PSA.Fixtures
`, k, fixtureChunks, k, strings.Join(chunks[k], ",\n"), k, k)
		writeIfChanged(filepath.Join(dir, fmt.Sprintf("F%d.lean", k)), body)
	}
	c.Note(fmt.Sprintf("fixtures: %d total, %d distinct, %d chunks", len(fx), len(dist), fixtureChunks))
}

func writeIfChanged(path, content string) {
	old, err := os.ReadFile(path)
	if err == nil && string(old) == content {
		return
	}
	os.WriteFile(path, []byte(content), 0o644)
}

// repoDir: the tree under verification (/repo unless VERIF_REPO points at a scratch copy)
func repoDir() string {
	if d := os.Getenv("VERIF_REPO"); d != "" {
		return d
	}
	return "/repo"
}

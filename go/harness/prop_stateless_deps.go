package main

import (
	"context"
	"encoding/json"
	"fmt"
	"net/http"
	"net/http/httptest"
	"strings"
	"sync"
	"time"

	admissionv1 "k8s.io/api/admission/v1"
	corev1 "k8s.io/api/core/v1"
	metav1 "k8s.io/apimachinery/pkg/apis/meta/v1"
	"k8s.io/client-go/kubernetes"
	corev1listers "k8s.io/client-go/listers/core/v1"
	"k8s.io/client-go/rest"
	"k8s.io/client-go/tools/cache"
	"k8s.io/pod-security-admission/admission"
	admissionapi "k8s.io/pod-security-admission/admission/api"
	"k8s.io/pod-security-admission/api"
)

// runC15RealDeps: the repository's own NamespaceGetter / PodLister implementations (client-backed, and lister-then-client
// with a lister that does not know the namespace yet) in front of a slow API server; overlapping requests for the same
// namespace, some of which give up early (deadline shorter than the server's latency). Every request must get the response
// it gets alone from a fresh controller with fresh getters: a request that gives up must not take the others with it.
func runC15RealDeps(c *Ctx) {
	const latency = 300 * time.Millisecond
	nsLabels := map[string]string{api.EnforceLevelLabel: "baseline", api.WarnLevelLabel: "restricted", api.AuditLevelLabel: "restricted"}
	var mu sync.Mutex
	served := 0
	ts := httptest.NewServer(http.HandlerFunc(func(w http.ResponseWriter, r *http.Request) {
		select {
		case <-time.After(latency):
		case <-r.Context().Done():
			return
		}
		mu.Lock()
		served++
		mu.Unlock()
		w.Header().Set("Content-Type", "application/json")
		parts := strings.Split(strings.Trim(r.URL.Path, "/"), "/")
		switch {
		case len(parts) == 4 && parts[2] == "namespaces": // /api/v1/namespaces/<name>
			json.NewEncoder(w).Encode(&corev1.Namespace{TypeMeta: metav1.TypeMeta{Kind: "Namespace", APIVersion: "v1"}, ObjectMeta: metav1.ObjectMeta{Name: parts[3], Labels: nsLabels}})
		case len(parts) == 5 && parts[4] == "pods": // /api/v1/namespaces/<ns>/pods
			pl := &corev1.PodList{TypeMeta: metav1.TypeMeta{Kind: "PodList", APIVersion: "v1"}}
			pl.Items = append(pl.Items, corev1.Pod{ObjectMeta: metav1.ObjectMeta{Name: "old", Namespace: parts[3]}, Spec: corev1.PodSpec{HostNetwork: true, Containers: []corev1.Container{{Name: "c", Image: "i"}}}})
			json.NewEncoder(w).Encode(pl)
		default:
			w.WriteHeader(404)
		}
	}))
	defer ts.Close()
	cs, err := kubernetes.NewForConfig(&rest.Config{Host: ts.URL, QPS: -1})
	if err != nil {
		c.Disagree(Finding{Desc: "cannot build a clientset for the fake API server: " + err.Error()})
		return
	}
	for _, variant := range []string{"client", "lister+client", "laggingLister+client"} {
		mk := func() *admission.Admission {
			var getter admission.NamespaceGetter
			if variant == "client" {
				getter = admission.NamespaceGetterFromClient(cs)
			} else {
				idx := cache.NewIndexer(cache.MetaNamespaceKeyFunc, cache.Indexers{})
				if variant == "laggingLister+client" { // an informer cache that has one namespace and has not seen the other yet
					idx.Add(&corev1.Namespace{ObjectMeta: metav1.ObjectMeta{Name: "cached-ns", Labels: nsLabels}})
				}
				getter = admission.NamespaceGetterFromListerAndClient(corev1listers.NewNamespaceLister(idx), cs)
			}
			adm := &admission.Admission{
				Configuration: &admissionapi.PodSecurityConfiguration{Defaults: admissionapi.PodSecurityDefaults{Enforce: "privileged", EnforceVersion: "latest", Audit: "privileged", AuditVersion: "latest", Warn: "privileged", WarnVersion: "latest"}},
				Evaluator:     realEvaluator, Metrics: &recorder{}, PodSpecExtractor: admission.DefaultPodSpecExtractor{}, NamespaceGetter: getter, PodLister: admission.PodListerFromClient(cs)}
			if err := adm.CompleteConfiguration(); err != nil {
				panic(err)
			}
			return adm
		}
		type job struct {
			a        *AdmitCase
			deadline time.Duration // 0 = none
			delay    time.Duration // start offset within the batch
		}
		pod := func(name string, hostNet bool) *corev1.Pod {
			return &corev1.Pod{ObjectMeta: metav1.ObjectMeta{Name: name, Namespace: "team-a"}, Spec: corev1.PodSpec{HostNetwork: hostNet, Containers: []corev1.Container{{Name: "c", Image: "i"}}}}
		}
		var jobs []job
		add := func(a *AdmitCase, deadline, delay time.Duration) {
			a.NS, a.User, a.ExpireAfter = "team-a", "u", -1
			jobs = append(jobs, job{a, deadline, delay})
		}
		// two requests in the namespace the cache may already hold come first (served without the API server where it does)
		for i := 0; i < 2; i++ {
			add(&AdmitCase{Res: "pods", Op: admissionv1.Create, Name: fmt.Sprintf("cached-%d", i), Obj: ObjSpec{Kind: "pod", Pod: pod(fmt.Sprintf("cached-%d", i), i == 1)}}, 0, 0)
			jobs[len(jobs)-1].a.NS = "cached-ns"
			jobs[len(jobs)-1].a.Obj.Pod.Namespace = "cached-ns"
		}
		// the ones that give up come first; the patient ones arrive while the first lookups are still in flight
		for i := 0; i < 3; i++ {
			add(&AdmitCase{Res: "pods", Op: admissionv1.Create, Name: fmt.Sprintf("quit-%d", i), Obj: ObjSpec{Kind: "pod", Pod: pod(fmt.Sprintf("quit-%d", i), false)}}, 80*time.Millisecond, time.Duration(i)*5*time.Millisecond)
		}
		for i := 0; i < 6; i++ {
			add(&AdmitCase{Res: "pods", Op: admissionv1.Create, Name: fmt.Sprintf("ok-%d", i), Obj: ObjSpec{Kind: "pod", Pod: pod(fmt.Sprintf("ok-%d", i), i%2 == 1)}}, 0, 25*time.Millisecond+time.Duration(i)*3*time.Millisecond)
		}
		add(&AdmitCase{Res: "deployments", Op: admissionv1.Create, Name: "dep", Obj: ObjSpec{Kind: "controller", CtlKind: "deployments", Pod: pod("dep", true)}}, 0, 30*time.Millisecond)
		add(&AdmitCase{Res: "namespaces", Op: admissionv1.Update, Name: "team-a", Obj: ObjSpec{Kind: "namespace", NSName: "team-a", Labels: nsLabels},
			Old: ObjSpec{Kind: "namespace", NSName: "team-a", Labels: map[string]string{}}}, 0, 35*time.Millisecond)
		run := func(adm *admission.Admission, j job) *admissionv1.AdmissionResponse {
			ctx := context.Background()
			if j.deadline > 0 {
				var cancel context.CancelFunc
				ctx, cancel = context.WithTimeout(ctx, j.deadline)
				defer cancel()
			}
			return adm.Validate(ctx, j.a.attributes()).DeepCopy()
		}
		// alone, each on a fresh controller (in parallel: they share nothing)
		solo := make([]*admissionv1.AdmissionResponse, len(jobs))
		var wg sync.WaitGroup
		for i := range jobs {
			wg.Add(1)
			go func(i int) { defer wg.Done(); solo[i] = run(mk(), jobs[i]) }(i)
		}
		wg.Wait()
		rounds := sizes(c, 2, 10)
		for round := 0; round < rounds; round++ {
			shared := mk()
			got := make([]*admissionv1.AdmissionResponse, len(jobs))
			for i := range jobs {
				wg.Add(1)
				go func(i int) {
					defer wg.Done()
					time.Sleep(jobs[i].delay)
					got[i] = run(shared, jobs[i])
				}(i)
			}
			wg.Wait()
			for i := range jobs {
				c.Eval(1)
				c.Tag("realDeps." + variant)
				proj := func(r *admissionv1.AdmissionResponse) J {
					code := int32(0)
					if r.Result != nil {
						code = r.Result.Code
					}
					_, hasErr := r.AuditAnnotations["error"]
					return J{"allowed": r.Allowed, "code": code, "errorAnnotation": hasErr, "enforce": r.AuditAnnotations["enforce-policy"], "audit": r.AuditAnnotations["audit-violations"], "warnings": len(r.Warnings)}
				}
				if canon(proj(got[i])) != canon(proj(solo[i])) {
					c.Violate(Finding{Desc: fmt.Sprintf("%s getter: request %q overlapping with requests that give up after 80ms (server latency %v) is answered differently from the same request handled alone by a fresh controller", variant, jobs[i].a.Name, latency),
						Key: "depends-on-concurrent-request", Input: J{"request": jobs[i].a.Name, "resource": jobs[i].a.Res, "deadline": jobs[i].deadline.String(), "startOffset": jobs[i].delay.String(), "getter": variant},
						Go: J{"overlapped": proj(got[i]), "alone": proj(solo[i])}})
				}
			}
		}
	}
	mu.Lock()
	c.Hist["realDeps.apiCallsServed"] = served
	mu.Unlock()
}

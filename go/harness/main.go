package main

import (
	"bufio"
	"bytes"
	"crypto/sha256"
	"encoding/hex"
	"encoding/json"
	"flag"
	"fmt"
	"os"
	"os/exec"
	"runtime"
	"sort"
	"sync"
	"time"
)

// Ctx collects what a property run did: evaluations, distinct non-trivial inputs, branch histogram,
// correspondence disagreements (Go vs Lean driver) and property violations found on the real code.
type Ctx struct {
	Prop     string
	Tier     string
	Seed     uint64
	Driver   string
	Thorough bool

	Evaluations   int
	nontrivial    map[string]bool
	Hist          map[string]int
	Samples       []any
	Disagreements []Finding
	Violations    []Finding
	Known         []Finding
	LeanOps       int
	Notes         []string
	start         time.Time
}

type Finding struct {
	Desc  string `json:"desc"`
	Key   string `json:"key,omitempty"` // stable identity, used for known findings
	Input any    `json:"input,omitempty"`
	Go    any    `json:"go,omitempty"`
	Lean  any    `json:"lean,omitempty"`
}

func (c *Ctx) Tag(t string)       { c.Hist[t]++ }
func (c *Ctx) Note(s string)      { c.Notes = append(c.Notes, s) }
func (c *Ctx) Eval(n int)         { c.Evaluations += n }
func (c *Ctx) Nontrivial(key any) { c.nontrivial[hashOf(key)] = true }
func (c *Ctx) Sample(s any) {
	if len(c.Samples) < 3 {
		c.Samples = append(c.Samples, s)
	}
}
func (c *Ctx) Disagree(f Finding) {
	if len(c.Disagreements) < 50 {
		c.Disagreements = append(c.Disagreements, f)
	} else {
		c.Hist["disagreements.dropped"]++
	}
}
func (c *Ctx) Violate(f Finding) {
	if len(c.Violations) < 50 {
		c.Violations = append(c.Violations, f)
	} else {
		c.Hist["violations.dropped"]++
	}
}

// verifDir: where the framework lives (VERIF_DIR, default /verif)
func verifDir() string {
	if d := os.Getenv("VERIF_DIR"); d != "" {
		return d
	}
	return "/verif"
}

func hashOf(v any) string {
	b, _ := json.Marshal(v)
	h := sha256.Sum256(b)
	return hex.EncodeToString(h[:8])
}

func canon(v any) string {
	b, err := json.Marshal(v)
	if err != nil {
		return fmt.Sprintf("<%v>", err)
	}
	var x any
	json.Unmarshal(b, &x)
	b, _ = json.Marshal(x) // maps are written key-sorted
	return string(b)
}

// Lean pipes a batch of ops through the driver and returns one decoded output per op.
func (c *Ctx) Lean(ops []J) []J {
	if len(ops) == 0 {
		return nil
	}
	// the driver answers one line per op and keeps no state between ops, so a batch is split over several driver processes
	shards := 1
	if len(ops) >= 400 {
		shards = runtime.NumCPU()
		if shards > 12 {
			shards = 12
		}
		if shards > len(ops)/100 {
			shards = len(ops) / 100
		}
	}
	res := make([]J, len(ops))
	var wg sync.WaitGroup
	for k := 0; k < shards; k++ {
		lo, hi := k*len(ops)/shards, (k+1)*len(ops)/shards
		wg.Add(1)
		go func(lo, hi int) {
			defer wg.Done()
			var in bytes.Buffer
			for _, op := range ops[lo:hi] {
				b, err := json.Marshal(op)
				if err != nil {
					panic(err)
				}
				in.Write(b)
				in.WriteByte('\n')
			}
			cmd := exec.Command(c.Driver)
			cmd.Stdin = &in
			var out bytes.Buffer
			cmd.Stdout = &out
			cmd.Stderr = os.Stderr
			if err := cmd.Run(); err != nil {
				fmt.Fprintf(os.Stderr, "driver failed: %v\n", err)
				os.Exit(3)
			}
			n := lo
			sc := bufio.NewScanner(&out)
			sc.Buffer(make([]byte, 1<<20), 1<<28)
			for sc.Scan() {
				var j J
				if err := json.Unmarshal(sc.Bytes(), &j); err != nil {
					fmt.Fprintf(os.Stderr, "driver output not JSON: %v: %s\n", err, sc.Text())
					os.Exit(3)
				}
				if n < hi {
					res[n] = j
				}
				n++
			}
			if n != hi {
				fmt.Fprintf(os.Stderr, "driver answered %d lines for %d ops\n", n-lo, hi-lo)
				os.Exit(3)
			}
		}(lo, hi)
	}
	wg.Wait()
	c.LeanOps += len(ops)
	for i, r := range res {
		if e, ok := r["driverError"]; ok {
			c.Disagree(Finding{Desc: fmt.Sprintf("driver error: %v", e), Input: ops[i]})
		}
	}
	return res
}

type Report struct {
	Property        string         `json:"property"`
	Tier            string         `json:"tier"`
	Seed            uint64         `json:"seed"`
	Evaluations     int            `json:"evaluations"`
	DistinctNontriv int            `json:"distinct_nontrivial"`
	LeanOps         int            `json:"lean_ops"`
	Histogram       map[string]int `json:"histogram"`
	Samples         []any          `json:"samples"`
	Disagreements   []Finding      `json:"disagreements"`
	Violations      []Finding      `json:"violations"`
	Notes           []string       `json:"notes"`
	WallS           float64        `json:"wall_s"`
}

var props = map[string]func(*Ctx){}

func main() {
	prop := flag.String("prop", "", "property id")
	tier := flag.String("tier", "quick", "quick|thorough")
	seed := flag.Uint64("seed", 1, "seed")
	driver := flag.String("driver", verifDir()+"/lean/.lake/build/bin/psa-driver", "lean driver")
	out := flag.String("out", "", "report file")
	replay := flag.String("replay", "", "replay file")
	flag.Parse()
	c := &Ctx{Prop: *prop, Tier: *tier, Seed: *seed, Driver: *driver, Thorough: *tier == "thorough",
		nontrivial: map[string]bool{}, Hist: map[string]int{}, start: time.Now()}
	if *replay != "" {
		runReplay(c, *replay)
	} else {
		f, ok := props[*prop]
		if !ok {
			ids := []string{}
			for k := range props {
				ids = append(ids, k)
			}
			sort.Strings(ids)
			fmt.Fprintf(os.Stderr, "unknown property %q; have %v\n", *prop, ids)
			os.Exit(2)
		}
		f(c)
	}
	rep := Report{Property: c.Prop, Tier: c.Tier, Seed: c.Seed, Evaluations: c.Evaluations, DistinctNontriv: len(c.nontrivial),
		LeanOps: c.LeanOps, Histogram: c.Hist, Samples: c.Samples, Disagreements: c.Disagreements, Violations: c.Violations,
		Notes: c.Notes, WallS: time.Since(c.start).Seconds()}
	if rep.Disagreements == nil {
		rep.Disagreements = []Finding{}
	}
	if rep.Violations == nil {
		rep.Violations = []Finding{}
	}
	b, _ := json.MarshalIndent(rep, "", " ")
	if *out != "" {
		os.WriteFile(*out, b, 0o644)
	} else {
		os.Stdout.Write(b)
	}
}

func runReplay(c *Ctx, path string) {
	b, err := os.ReadFile(path)
	if err != nil {
		fmt.Fprintln(os.Stderr, err)
		os.Exit(2)
	}
	var rp struct {
		Property string `json:"property"`
		Seed     uint64 `json:"seed"`
		Tier     string `json:"tier"`
	}
	json.Unmarshal(b, &rp)
	if rp.Property != "" {
		c.Prop = rp.Property
	}
	if rp.Seed != 0 {
		c.Seed = rp.Seed
	}
	if rp.Tier != "" {
		c.Tier = rp.Tier
		c.Thorough = rp.Tier == "thorough"
	}
	f, ok := props[c.Prop]
	if !ok {
		fmt.Fprintf(os.Stderr, "unknown property %q\n", c.Prop)
		os.Exit(2)
	}
	f(c) // every run is a deterministic function of (property, tier, seed): replay = re-run
}

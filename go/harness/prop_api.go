package main

import (
	"fmt"
	"sort"
	"strings"

	corev1 "k8s.io/api/core/v1"
	metav1 "k8s.io/apimachinery/pkg/apis/meta/v1"
	"k8s.io/pod-security-admission/api"
	"k8s.io/pod-security-admission/policy"
)

func init() {
	props["C04"] = runC04
	props["C05"] = runC05
}

// ---------------------------------------------------------------- C04

type genCheck struct {
	ID    string
	Level string
	Revs  []genRev
}
type genRev struct {
	Min       api.Version
	Mark      int
	Overrides []string
}

func genCheckSet(r *Rng) []genCheck {
	pool := []string{"a", "b", "c", "d", "e", "f", "ab", "B", "zz", ""}
	n := r.Intn(7)
	var cs []genCheck
	used := map[string]bool{}
	mark := 1
	malform := r.Chance(2, 5) // most sets valid, a separate share malformed in one or two ways
	for i := 0; i < n; i++ {
		id := pick(r, pool)
		if used[id] && !(malform && r.Chance(1, 4)) {
			for _, p := range pool {
				if !used[p] {
					id = p
					break
				}
			}
		}
		used[id] = true
		lvl := pick(r, []string{"baseline", "baseline", "restricted", "restricted"})
		if malform && r.Chance(1, 8) {
			lvl = pick(r, []string{"privileged", "", "Baseline", "other"})
		}
		c := genCheck{ID: id, Level: lvl}
		nrev := 1 + r.Intn(4)
		if malform && r.Chance(1, 10) {
			nrev = 0
		}
		minor := r.Intn(4)
		for j := 0; j < nrev; j++ {
			v := api.MajorMinorVersion(1, minor)
			if malform && r.Chance(1, 10) {
				v = pick(r, []api.Version{{}, api.LatestVersion(), api.MajorMinorVersion(1, minor-1-r.Intn(2)), api.MajorMinorVersion(1, minor)})
				if v.Major() == 1 && v.Minor() < 0 {
					v = api.MajorMinorVersion(1, 0)
				}
			}
			rev := genRev{Min: v, Mark: mark}
			mark++
			if (lvl == "restricted" && r.Chance(1, 3)) || (malform && r.Chance(1, 10)) {
				for k := 1 + r.Intn(2); k > 0; k-- {
					rev.Overrides = append(rev.Overrides, pick(r, append(pool, "missing")))
				}
			}
			c.Revs = append(c.Revs, rev)
			minor += 1 + r.Intn(4)
			if malform && r.Chance(1, 12) {
				minor -= 1 + r.Intn(3)
				if minor < 0 {
					minor = 0
				}
			}
		}
		cs = append(cs, c)
	}
	return cs
}

// wellFormedGo: the property's list of malformed sets, written from its statement.
func wellFormedGo(cs []genCheck) bool {
	level := map[string]string{}
	for _, c := range cs {
		if _, dup := level[c.ID]; dup {
			return false
		}
		level[c.ID] = c.Level
	}
	for _, c := range cs {
		if c.Level != "baseline" && c.Level != "restricted" {
			return false
		}
		if len(c.Revs) == 0 {
			return false
		}
		prev := -1
		for _, rv := range c.Revs {
			if rv.Min == (api.Version{}) || rv.Min.Latest() || rv.Min.Major() != 1 {
				return false
			}
			if rv.Min.Minor() <= prev {
				return false
			}
			prev = rv.Min.Minor()
			if len(rv.Overrides) > 0 && c.Level != "restricted" {
				return false
			}
			for _, o := range rv.Overrides {
				if l, ok := level[o]; ok && l != "baseline" {
					return false
				}
			}
		}
	}
	return true
}

// specGo: the resolution rule of C04, written from the property statement (independent of the registry code).
func specGo(cs []genCheck, level string, v api.Version) []int {
	if level == "privileged" {
		return []int{}
	}
	mx := 0
	for _, c := range cs {
		if m := c.Revs[len(c.Revs)-1].Min.Minor(); m > mx {
			mx = m
		}
	}
	V := mx
	if !v.Latest() && v.Major() < 1 {
		return []int{} // older than every registered revision (all of them are v1.N): nothing was introduced yet
	}
	if !v.Latest() && v.Major() == 1 && v.Minor() < mx {
		V = v.Minor()
	} // a later major is newer than every registered revision: behaves as the newest
	sel := map[string]*genRev{}
	var bids, rids []string
	for i := range cs {
		c := &cs[i]
		for j := range c.Revs {
			if c.Revs[j].Min.Minor() <= V {
				sel[c.ID] = &c.Revs[j]
			}
		}
		if c.Level == "restricted" {
			rids = append(rids, c.ID)
		} else {
			bids = append(bids, c.ID)
		}
	}
	sort.Strings(bids)
	sort.Strings(rids)
	out := []int{}
	over := map[string]bool{}
	if level == "restricted" {
		for _, id := range rids {
			if s := sel[id]; s != nil {
				for _, o := range s.Overrides {
					over[o] = true
				}
			}
		}
	}
	for _, id := range bids {
		if s := sel[id]; s != nil && !over[id] {
			out = append(out, s.Mark)
		}
	}
	if level == "restricted" {
		for _, id := range rids {
			if s := sel[id]; s != nil {
				out = append(out, s.Mark)
			}
		}
	}
	return out
}

func runC04(c *Ctx) {
	apiHelpers(c)
	n := 3000
	if c.Thorough {
		n = 60000
	}
	r := NewRng(c.Seed)
	type q struct {
		level string
		v     api.Version
	}
	var queries []q
	var qj []J
	for _, l := range []string{"privileged", "baseline", "restricted"} {
		for m := 0; m <= 14; m++ {
			queries = append(queries, q{l, api.MajorMinorVersion(1, m)})
		}
		queries = append(queries, q{l, api.LatestVersion()}, q{l, api.MajorMinorVersion(1, 1000000)},
			// other majors (api.MajorMinorVersion and api.GetAPIVersion can produce them): v2.N is newer than every revision, v0.N older
			q{l, api.MajorMinorVersion(2, 0)}, q{l, api.MajorMinorVersion(2, 3)}, q{l, api.MajorMinorVersion(3, 1000)}, q{l, api.MajorMinorVersion(0, 3)}, q{l, api.MajorMinorVersion(0, 40)})
	}
	for _, x := range queries {
		qj = append(qj, J{"level": x.level, "version": verJSON(x.v)})
	}
	var ops []J
	type obs struct {
		cs    []genCheck
		valid bool
		goRes [][]int
	}
	var all []obs
	flush := func() {
		outs := c.Lean(ops)
		for i, o := range outs {
			ob := all[i]
			lv, _ := o["valid"].(bool)
			if lv != ob.valid {
				c.Disagree(Finding{Desc: fmt.Sprintf("NewEvaluator accepted=%v, model validateChecks=%v", ob.valid, lv), Input: ops[i]})
				continue
			}
			if !ob.valid {
				continue
			}
			if canon(o["results"]) != canon(ob.goRes) {
				c.Disagree(Finding{Desc: "marker sequences differ between the registry and its loop-level model", Input: ops[i], Go: ob.goRes, Lean: o["results"]})
			}
			if canon(o["spec"]) != canon(o["results"]) {
				c.Disagree(Finding{Desc: "Lean: populate/evaluate differs from spec on an accepted set (theorem C04_resolves would be contradicted)", Input: ops[i]})
			}
		}
		ops, all = nil, nil
	}
	for i := 0; i < n; i++ {
		cs := genCheckSet(r.Fork())
		// real code with marker functions
		var checks []policy.Check
		var jcs []J
		nOver, nMulti := 0, 0
		for _, gc := range cs {
			ch := policy.Check{ID: policy.CheckID(gc.ID), Level: api.Level(gc.Level)}
			var jrevs []J
			for _, rv := range gc.Revs {
				mark := rv.Mark
				vc := policy.VersionedCheck{MinimumVersion: rv.Min, CheckPod: func(*metav1.ObjectMeta, *corev1.PodSpec) policy.CheckResult {
					return policy.CheckResult{Allowed: true, ForbiddenReason: fmt.Sprint(mark)}
				}}
				for _, o := range rv.Overrides {
					vc.OverrideCheckIDs = append(vc.OverrideCheckIDs, policy.CheckID(o))
				}
				ch.Versions = append(ch.Versions, vc)
				jrevs = append(jrevs, J{"min": verJSON(rv.Min), "mark": rv.Mark, "overrides": rv.Overrides})
				if len(rv.Overrides) > 0 {
					nOver++
				}
			}
			if len(gc.Revs) > 1 {
				nMulti++
			}
			checks = append(checks, ch)
			jcs = append(jcs, J{"id": gc.ID, "level": gc.Level, "revs": jrevs})
		}
		// how the caller houses the revision lists is the caller's business: every third set keeps all revisions of all checks in
		// one table and hands each check a window of it (spare capacity reaching into the next check's revisions), every third
		// one hands out windows with clipped capacity, the rest keeps one array per check
		if housing := i % 3; housing != 2 && len(checks) > 0 {
			var flat []policy.VersionedCheck
			for _, ch := range checks {
				flat = append(flat, ch.Versions...)
			}
			at := 0
			for k := range checks {
				nk := len(checks[k].Versions)
				if housing == 0 {
					checks[k].Versions = flat[at : at+nk]
				} else {
					checks[k].Versions = flat[at : at+nk : at+nk]
				}
				at += nk
			}
			c.Tag(fmt.Sprintf("housing-%d", housing))
		}
		ev, err := policy.NewEvaluator(checks)
		wf := wellFormedGo(cs)
		c.Eval(1)
		if err != nil {
			c.Tag("refused: " + strings.SplitN(strings.SplitN(err.Error(), ": ", 2)[len(strings.SplitN(err.Error(), ": ", 2))-1], " ", 3)[0])
		} else {
			c.Tag("accepted")
		}
		if (err == nil) != wf {
			c.Violate(Finding{Desc: fmt.Sprintf("check set well-formed=%v but NewEvaluator error=%v", wf, err), Key: "refusal", Input: jcs})
		}
		ob := obs{cs: cs, valid: err == nil}
		if err == nil {
			if nOver > 0 && nMulti > 0 {
				c.Nontrivial(jcs)
			}
			// the queries are asked in a different order for every check set (newest version first, levels mixed, ...), and then
			// once more in the opposite order: what one evaluator runs for a level and version must not depend on what it was
			// asked before
			ask := func(x q) []int {
				rs := ev.EvaluatePod(api.LevelVersion{Level: api.Level(x.level), Version: x.v}, &metav1.ObjectMeta{}, &corev1.PodSpec{})
				marks := []int{}
				for _, rr := range rs {
					var m int
					fmt.Sscan(rr.ForbiddenReason, &m)
					marks = append(marks, m)
				}
				c.Eval(1)
				return marks
			}
			order := r.Perm(len(queries))
			answers := make([][]int, len(queries))
			for _, qi := range order {
				answers[qi] = ask(queries[qi])
			}
			for k := len(order) - 1; k >= 0; k-- {
				qi := order[k]
				if again := ask(queries[qi]); canon(again) != canon(answers[qi]) {
					c.Violate(Finding{Desc: fmt.Sprintf("level %s version %s runs %v when first asked and %v when asked again after other queries", queries[qi].level, queries[qi].v.String(), answers[qi], again), Key: "resolution-history", Input: jcs})
					break
				}
			}
			for qi, x := range queries {
				marks := answers[qi]
				ob.goRes = append(ob.goRes, marks)
				if wf {
					want := specGo(cs, x.level, x.v)
					if canon(want) != canon(marks) {
						c.Violate(Finding{Desc: fmt.Sprintf("level %s version %s runs %v, the resolution rule says %v", x.level, x.v.String(), marks, want), Key: "resolution", Input: jcs})
					}
				}
			}
		}
		ops = append(ops, J{"op": "registry", "checks": jcs, "queries": qj})
		all = append(all, ob)
		c.Sample(jcs)
		if len(ops) >= 500 {
			flush()
		}
	}
	flush()
	// the shipped set through the same path
	ev := newRecEvaluator()
	p := &corev1.Pod{}
	for _, l := range []string{"baseline", "restricted"} {
		for m := -1; m <= maxMinor()+3; m++ {
			rs, _ := ev.Eval(mkLV(l, m), p)
			c.Eval(1)
			if len(rs) == 0 {
				c.Violate(Finding{Desc: fmt.Sprintf("shipped checks: %s runs nothing", verName(l, m)), Key: "empty-policy"})
			}
		}
	}
}

// ---------------------------------------------------------------- C05

var malformedVersions = []string{"", "Latest", "latest ", " latest", "latest\n", "v1", "v1.", "1.2", "v1.02", "v1.+3", "v1.-1", "v2.0", "v0.5", "v1.0x", "v1.1.1", "V1.5", "v1,5",
	"v1.9223372036854775808", "v1.99999999999999999999", "v1.18446744073709551616", "v1.18446744073709551628", "v1.36893488147419103237", "v1.340282366920938463463374607431768211459", "v1.５", "v1. 5", "v1.5\n", "vv1.5", "v1.00", "v01.5", "v1.1e3", "v1.0x10"}
var validVersions = []string{"latest", "v1.0", "v1.1", "v1.7", "v1.25", "v1.32", "v1.33", "v1.37", "v1.100", "v1.9223372036854775807", "v1.10", "v1.9",
	"v1.2147483648", "v1.4294967296", "v1.4294967301", "v1.65536", "v1.256"} // values that wrap in narrower integers
var malformedLevels = []string{"", "Baseline", "RESTRICTED", "baseline ", " baseline", "priv", "privileged\n", "restricted,baseline", "b", "none", "bäseline"}
var validLevels = []string{"privileged", "baseline", "restricted"}

func mutateString(r *Rng, s string) string {
	b := []byte(s)
	switch r.Intn(5) {
	case 0:
		if len(b) > 0 {
			i := r.Intn(len(b))
			b = append(b[:i], b[i+1:]...)
		}
	case 1:
		i := r.Intn(len(b) + 1)
		ch := pick(r, []byte("0123456789v.l-+ x\n"))
		b = append(b[:i], append([]byte{ch}, b[i:]...)...)
	case 2:
		if len(b) > 0 {
			b[r.Intn(len(b))] = pick(r, []byte("0123456789v.latest"))
		}
	case 3:
		b = append(b, pick(r, []byte("0123456789 \n")))
	default:
		b = append([]byte{pick(r, []byte("0v1 "))}, b...)
	}
	return string(b)
}

func polJSON(p api.Policy) J {
	lv := func(x api.LevelVersion) J { return J{"level": string(x.Level), "version": verJSON(x.Version)} }
	return J{"enforce": lv(p.Enforce), "audit": lv(p.Audit), "warn": lv(p.Warn)}
}

var labelKeys = []string{api.EnforceLevelLabel, api.EnforceVersionLabel, api.AuditLevelLabel, api.AuditVersionLabel, api.WarnLevelLabel, api.WarnVersionLabel}

func genLabels(r *Rng) map[string]string {
	if r.Chance(1, 12) {
		return nil
	}
	if r.Chance(1, 14) { // labels that are present but empty (a legal label value), and nothing else
		l := map[string]string{}
		for _, k := range labelKeys {
			if r.Chance(1, 3) {
				l[k] = ""
			}
		}
		if len(l) == 0 {
			l[pick(r, labelKeys)] = ""
		}
		if r.Chance(1, 3) {
			l["unrelated"] = ""
		}
		return l
	}
	l := map[string]string{}
	if r.Bool() {
		l["unrelated"] = "x"
		l["pod-security.kubernetes.io/enforce2"] = "restricted"
		l["pod-security.kubernetes.io/Enforce"] = "restricted"
		l["pod-security.kubernetes.io/enforce-Version"] = "v1.1"
	}
	if r.Chance(1, 4) { // keys that only resemble the six: the bare names, other prefixes, other separators
		for n := 1 + r.Intn(3); n > 0; n-- {
			i := r.Intn(len(labelKeys))
			bare := strings.TrimPrefix(labelKeys[i], "pod-security.kubernetes.io/")
			k := pick(r, []string{bare, "/" + bare, "x/" + bare, "kubernetes.io/" + bare, "pod-security.kubernetes.io." + bare, "pod-security.kubernetes.io//" + bare,
				"Pod-Security.kubernetes.io/" + bare, "pod-security.kubernetes.io/" + bare + "/", "pod-security.kubernetes.io/" + bare + " ", "pod-security.k8s.io/" + bare,
				"security.kubernetes.io/" + bare, "pod-security.kubernetes.io/pod-security.kubernetes.io/" + bare})
			if i%2 == 0 {
				l[k] = pick(r, append(append([]string{}, validLevels...), malformedLevels...))
			} else {
				l[k] = pick(r, append(append([]string{}, validVersions[:8]...), malformedVersions[:8]...))
			}
		}
	}
	for i, k := range labelKeys {
		if r.Chance(2, 5) {
			continue
		}
		if i%2 == 0 {
			if r.Chance(1, 5) {
				l[k] = pick(r, malformedLevels)
			} else {
				l[k] = pick(r, validLevels)
			}
		} else {
			if r.Chance(1, 5) {
				l[k] = pick(r, malformedVersions)
			} else {
				l[k] = pick(r, validVersions)
			}
		}
	}
	return l
}

func genDefaultPolicy(r *Rng) api.Policy {
	lv := func() api.LevelVersion {
		v, _ := api.ParseVersion(pick(r, validVersions))
		return api.LevelVersion{Level: api.Level(pick(r, validLevels)), Version: v}
	}
	if r.Chance(1, 3) {
		p := api.LevelVersion{Level: api.LevelPrivileged, Version: api.LatestVersion()}
		return api.Policy{Enforce: p, Audit: p, Warn: p}
	}
	return api.Policy{Enforce: lv(), Audit: lv(), Warn: lv()}
}

func labelsJSON(l map[string]string) [][]string { return annPairs(l, false) }

// apiHelpers: the exported helpers of package api that the registry's clamp, the dry-run skip rule and warn defaulting rest on —
// Version.Older, CompareLevels, Policy.FullyPrivileged — on every pair from a pool of versions (latest, the zero value, majors 0 / 1 / 2,
// neighbouring and far minors) and every pair of levels, against the model's definitions; and Older's own contract: latest is
// older than nothing and everything else is older than latest
func apiHelpers(c *Ctx) {
	vers := []api.Version{api.LatestVersion(), {}, api.MajorMinorVersion(0, 5), api.MajorMinorVersion(1, 0), api.MajorMinorVersion(1, 1), api.MajorMinorVersion(1, 24), api.MajorMinorVersion(1, 25),
		api.MajorMinorVersion(1, 32), api.MajorMinorVersion(1, 33), api.MajorMinorVersion(1, 1000000), api.MajorMinorVersion(2, 0), api.MajorMinorVersion(2, 40)}
	levels := []api.Level{api.LevelPrivileged, api.LevelBaseline, api.LevelRestricted}
	vj := func(v api.Version) any {
		if v.Latest() {
			return "latest"
		}
		return []int{v.Major(), v.Minor()}
	}
	var ops []J
	type obs struct {
		older, fully bool
		cmp          string
		in           J
	}
	var all []obs
	for _, a := range vers {
		for _, b := range vers {
			for _, la := range levels {
				for _, lb := range levels {
					a := a
					cmp := "eq"
					if x := api.CompareLevels(la, lb); x < 0 {
						cmp = "lt"
					} else if x > 0 {
						cmp = "gt"
					}
					p := api.Policy{Enforce: api.LevelVersion{Level: la, Version: a}, Audit: api.LevelVersion{Level: lb, Version: b}, Warn: api.LevelVersion{Level: la, Version: b}}
					o := obs{older: a.Older(b), fully: p.FullyPrivileged(), cmp: cmp, in: J{"a": a.String(), "b": b.String(), "levelA": la, "levelB": lb}}
					all = append(all, o)
					ops = append(ops, J{"op": "apiHelpers", "a": vj(a), "b": vj(b), "la": string(la), "lb": string(lb)})
					c.Eval(1)
					if a.Latest() && o.older {
						c.Violate(Finding{Desc: fmt.Sprintf("Version.Older: latest is reported older than %s", b.String()), Key: "older-latest", Input: o.in})
					}
					if !a.Latest() && b.Latest() && !o.older {
						c.Violate(Finding{Desc: fmt.Sprintf("Version.Older: %s is not reported older than latest", a.String()), Key: "older-latest", Input: o.in})
					}
				}
			}
		}
	}
	c.Tag("apiHelpers")
	for i, o := range c.Lean(ops) {
		lo, _ := o["older"].(bool)
		lf, _ := o["fullyPrivileged"].(bool)
		lc, _ := o["compare"].(string)
		if lo != all[i].older || lf != all[i].fully || lc != all[i].cmp {
			c.Disagree(Finding{Desc: fmt.Sprintf("api helpers differ from the model: Older=%v/%v CompareLevels=%s/%s FullyPrivileged=%v/%v (code/model)", all[i].older, lo, all[i].cmp, lc, all[i].fully, lf), Input: all[i].in})
		}
	}
}

func runC05(c *Ctx) {
	apiHelpers(c)
	defer c05LongLivedController(c)
	nStr, nMaps := 6000, 6000
	if c.Thorough {
		nStr, nMaps = 100000, 100000
	}
	r := NewRng(c.Seed)
	// strings
	var ops []J
	var strs []string
	add := func(kind, s string) {
		ops = append(ops, J{"op": kind, "s": s})
		strs = append(strs, s)
	}
	for _, s := range append(append([]string{}, malformedVersions...), validVersions...) {
		add("parseVersion", s)
	}
	for _, s := range append(append([]string{}, malformedLevels...), validLevels...) {
		add("parseLevel", s)
	}
	for i := 0; i < nStr; i++ {
		base := pick(r, append(append([]string{}, validVersions...), malformedVersions...))
		if r.Chance(1, 3) {
			base = fmt.Sprintf("v1.%d", r.U64()>>uint(r.Intn(64)))
		}
		for k := r.Intn(3); k > 0; k-- {
			base = mutateString(r, base)
		}
		add("parseVersion", base)
		if i%4 == 0 {
			lb := pick(r, append(append([]string{}, validLevels...), malformedLevels...))
			if r.Bool() {
				lb = mutateString(r, lb)
			}
			add("parseLevel", lb)
		}
	}
	outs := c.Lean(ops)
	for i, o := range outs {
		s := strs[i]
		c.Eval(1)
		if ops[i]["op"] == "parseVersion" {
			v, err := api.ParseVersion(s)
			lok, _ := o["ok"].(bool)
			if (err == nil) != lok || canon(verJSON(v)) != canon(o["version"]) {
				c.Disagree(Finding{Desc: fmt.Sprintf("ParseVersion(%q): Go (%v, err=%v), model %v", s, v.String(), err, o), Input: ops[i]})
			}
			if err == nil {
				c.Tag("version.ok")
				c.Nontrivial("v:" + s)
				if v.String() != s {
					c.Violate(Finding{Desc: fmt.Sprintf("version %q parses but prints back as %q", s, v.String()), Key: "roundtrip", Input: s})
				}
				if s != "latest" && !canonicalV1(s) {
					c.Violate(Finding{Desc: fmt.Sprintf("version %q accepted but is neither latest nor canonical v1.N", s), Key: "accepts-noncanonical", Input: s})
				}
			} else {
				c.Tag("version.err")
				if !v.Latest() {
					c.Violate(Finding{Desc: fmt.Sprintf("unparsable version %q does not fall back to latest", s), Key: "fallback", Input: s})
				}
				if s == "latest" || (canonicalV1(s) && len(s) < 20) {
					c.Violate(Finding{Desc: fmt.Sprintf("canonical version %q rejected", s), Key: "rejects-canonical", Input: s})
				}
			}
		} else {
			l, err := api.ParseLevel(s)
			lok, _ := o["ok"].(bool)
			if (err == nil) != lok || string(l) != o["level"] {
				c.Disagree(Finding{Desc: fmt.Sprintf("ParseLevel(%q): Go (%v, err=%v), model %v", s, l, err, o), Input: ops[i]})
			}
			exact := s == "privileged" || s == "baseline" || s == "restricted"
			if (err == nil) != exact {
				c.Violate(Finding{Desc: fmt.Sprintf("level %q: accepted=%v", s, err == nil), Key: "level-names", Input: s})
			}
			if err != nil && l != api.LevelRestricted {
				c.Violate(Finding{Desc: fmt.Sprintf("unparsable level %q does not fall back to restricted", s), Key: "fallback", Input: s})
			}
		}
	}
	// label maps
	ops = nil
	type obs struct {
		labels map[string]string
		d      api.Policy
		p      api.Policy
		errs   [][]string
	}
	var all []obs
	for i := 0; i < nMaps; i++ {
		labels := genLabels(r)
		d := genDefaultPolicy(r)
		p, errs := api.PolicyToEvaluate(labels, d)
		var es [][]string
		for _, e := range errs {
			key := strings.TrimSuffix(strings.TrimPrefix(e.Field, "metadata.labels["), "]")
			es = append(es, []string{key, fmt.Sprint(e.BadValue)})
		}
		if es == nil {
			es = [][]string{}
		}
		ops = append(ops, J{"op": "policyToEvaluate", "labels": labelsJSON(labels), "defaults": polJSON(d)})
		all = append(all, obs{labels, d, p, es})
		c.Eval(1)
		if len(errs) > 0 {
			c.Tag(fmt.Sprintf("labelErrs=%d", len(errs)))
		}
		if len(labels) > 2 {
			c.Nontrivial(J{"l": labels, "d": polJSON(d)})
		}
		if i < 2 {
			c.Sample(J{"labels": labels, "defaults": polJSON(d)})
		}
		// the property, directly on the real code
		for _, lvv := range []api.LevelVersion{p.Enforce, p.Audit, p.Warn} {
			if lvv.Level != api.LevelPrivileged && lvv.Level != api.LevelBaseline && lvv.Level != api.LevelRestricted {
				c.Violate(Finding{Desc: "resolved level is not one of the three", Key: "invalid-level", Input: J{"labels": labels, "defaults": polJSON(d)}})
			}
		}
		want := specPolicyGo(labels, d)
		if canon(polJSON(want.p)) != canon(polJSON(p)) {
			c.Violate(Finding{Desc: fmt.Sprintf("labels resolve to %s, the fail-safe rule says %s", canon(polJSON(p)), canon(polJSON(want.p))), Key: "policy", Input: J{"labels": labels, "defaults": polJSON(d)}})
		}
		if canon(want.errs) != canon(es) {
			c.Violate(Finding{Desc: fmt.Sprintf("field errors %v, expected %v", es, want.errs), Key: "errors", Input: J{"labels": labels, "defaults": polJSON(d)}})
		}
	}
	outs = c.Lean(ops)
	for i, o := range outs {
		if canon(o["policy"]) != canon(polJSON(all[i].p)) || canon(o["errs"]) != canon(all[i].errs) {
			c.Disagree(Finding{Desc: "PolicyToEvaluate differs from the model", Input: ops[i], Go: J{"policy": polJSON(all[i].p), "errs": all[i].errs}, Lean: o})
		}
	}
}

func canonicalV1(s string) bool {
	if !strings.HasPrefix(s, "v1.") {
		return false
	}
	d := s[3:]
	if d == "" {
		return false
	}
	for _, ch := range d {
		if ch < '0' || ch > '9' {
			return false
		}
	}
	return len(d) == 1 || d[0] != '0'
}

type specOut struct {
	p    api.Policy
	errs [][]string
}

// specPolicyGo: C05 written from the property statement, independent of api.PolicyToEvaluate's control flow.
func specPolicyGo(labels map[string]string, d api.Policy) specOut {
	out := specOut{p: d, errs: [][]string{}}
	okLevel := func(s string) bool { return s == "privileged" || s == "baseline" || s == "restricted" }
	okVersion := func(s string) (api.Version, bool) {
		if s == "latest" {
			return api.LatestVersion(), true
		}
		if canonicalV1(s) {
			var n int
			if _, err := fmt.Sscan(s[3:], &n); err == nil && fmt.Sprint(n) == s[3:] {
				return api.MajorMinorVersion(1, n), true
			}
		}
		return api.LatestVersion(), false
	}
	level := func(key string, cur *api.Level, closed bool) (present, valid bool) {
		s, ok := labels[key]
		if !ok {
			return false, false
		}
		if okLevel(s) {
			*cur = api.Level(s)
			return true, true
		}
		if closed {
			*cur = api.LevelRestricted
		} else {
			*cur = api.LevelPrivileged
		}
		out.errs = append(out.errs, []string{key, s})
		return true, false
	}
	version := func(key string, cur *api.Version) bool {
		s, ok := labels[key]
		if !ok {
			return false
		}
		v, good := okVersion(s)
		*cur = v
		if !good {
			out.errs = append(out.errs, []string{key, s})
		}
		return true
	}
	_, enfValid := level(api.EnforceLevelLabel, &out.p.Enforce.Level, true)
	version(api.EnforceVersionLabel, &out.p.Enforce.Version)
	level(api.AuditLevelLabel, &out.p.Audit.Level, false)
	version(api.AuditVersionLabel, &out.p.Audit.Version)
	hasWarn, _ := level(api.WarnLevelLabel, &out.p.Warn.Level, false)
	hasWarnV := version(api.WarnVersionLabel, &out.p.Warn.Version)
	rank := map[api.Level]int{api.LevelPrivileged: 0, api.LevelBaseline: 1, api.LevelRestricted: 2}
	if !hasWarn && enfValid && rank[out.p.Enforce.Level] > rank[out.p.Warn.Level] {
		out.p.Warn.Level = out.p.Enforce.Level
		if !hasWarnV {
			out.p.Warn.Version = out.p.Enforce.Version
		}
	}
	return out
}

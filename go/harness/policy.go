package main

import (
	"fmt"

	corev1 "k8s.io/api/core/v1"
	metav1 "k8s.io/apimachinery/pkg/apis/meta/v1"
	"k8s.io/pod-security-admission/api"
	"k8s.io/pod-security-admission/policy"
)

type RevRef struct {
	ID    string
	Minor int
	Fn    policy.CheckPodFn
	Level string
}

func shippedRevs() []RevRef {
	var out []RevRef
	for _, c := range policy.DefaultChecks() {
		for _, v := range c.Versions {
			mv := v.MinimumVersion
			out = append(out, RevRef{ID: string(c.ID), Minor: mv.Minor(), Fn: v.CheckPod, Level: string(c.Level)})
		}
	}
	return out
}

func maxMinor() int {
	m := 0
	for _, r := range shippedRevs() {
		if r.Minor > m {
			m = r.Minor
		}
	}
	return m
}

type RevResult struct {
	Rev     string `json:"rev"`
	Allowed bool   `json:"allowed"`
	Reason  string `json:"reason"`
	Detail  string `json:"detail"`
}

// recEvaluator wraps every CheckPod of DefaultChecks() with a recorder, so that one EvaluatePod call
// yields the ordered list of (check id @ revision, result).
type recEvaluator struct {
	ev  policy.Evaluator
	log *[]RevResult
}

func newRecEvaluator() *recEvaluator {
	log := &[]RevResult{}
	checks := policy.DefaultChecks()
	for i := range checks {
		for j := range checks[i].Versions {
			id := string(checks[i].ID)
			mv := checks[i].Versions[j].MinimumVersion
			name := fmt.Sprintf("%s@%d", id, mv.Minor())
			fn := checks[i].Versions[j].CheckPod
			checks[i].Versions[j].CheckPod = func(m *metav1.ObjectMeta, s *corev1.PodSpec) policy.CheckResult {
				r := fn(m, s)
				*log = append(*log, RevResult{Rev: name, Allowed: r.Allowed, Reason: r.ForbiddenReason, Detail: r.ForbiddenDetail})
				return r
			}
		}
	}
	ev, err := policy.NewEvaluator(checks)
	if err != nil {
		panic(err)
	}
	return &recEvaluator{ev: ev, log: log}
}

// reusedPod: every other run of 64 evaluations goes through this one object (content replaced each time, as a caller decoding into a
// reused variable does): where a pod lives in memory says nothing about what it contains
var reusedPod corev1.Pod
var evalCount int
var lastEvalPod *corev1.Pod

func (e *recEvaluator) Eval(lv api.LevelVersion, p *corev1.Pod) ([]RevResult, []policy.CheckResult) {
	*e.log = (*e.log)[:0]
	evalCount++
	if (evalCount/64)%2 == 0 { // runs of 64 consecutive evaluations (which span several pods) through the one object, then 64 on the pods themselves
		if lastEvalPod != nil && lastEvalPod != p {
			// the object held the previous pod a moment ago, and was evaluated holding it
			reusedPod = *lastEvalPod.DeepCopy()
			e.ev.EvaluatePod(lv, &reusedPod.ObjectMeta, &reusedPod.Spec)
			*e.log = (*e.log)[:0]
		}
		lastEvalPod = p
		reusedPod = *p.DeepCopy()
		p = &reusedPod
	} else {
		lastEvalPod = p
	}
	rs := e.ev.EvaluatePod(lv, &p.ObjectMeta, &p.Spec)
	out := make([]RevResult, len(*e.log))
	copy(out, *e.log)
	return out, rs
}

func verJSON(v api.Version) any {
	if v.Latest() {
		return "latest"
	}
	return []int{v.Major(), v.Minor()}
}

func mkLV(level string, minor int) api.LevelVersion {
	if minor < 0 {
		return api.LevelVersion{Level: api.Level(level), Version: api.LatestVersion()}
	}
	return api.LevelVersion{Level: api.Level(level), Version: api.MajorMinorVersion(1, minor)}
}

func leanResults(j J) []RevResult {
	arr, _ := j["results"].([]any)
	out := make([]RevResult, 0, len(arr))
	for _, x := range arr {
		m := x.(map[string]any)
		r := RevResult{}
		r.Rev, _ = m["rev"].(string)
		r.Allowed, _ = m["allowed"].(bool)
		r.Reason, _ = m["reason"].(string)
		r.Detail, _ = m["detail"].(string)
		out = append(out, r)
	}
	return out
}

func allAllowed(rs []RevResult) bool {
	for _, r := range rs {
		if !r.Allowed {
			return false
		}
	}
	return true
}

module veriffactx

go 1.23.0



require (
	github.com/blang/semver/v4 v4.0.0
	github.com/google/go-cmp v0.6.0
	github.com/spf13/cobra v1.8.1
	github.com/spf13/pflag v1.0.5
	github.com/stretchr/testify v1.9.0
	k8s.io/api v0.0.0-20241206182100-8b216f34d7ed
	k8s.io/apimachinery v0.0.0-20241206181643-8c60292e48e4
	k8s.io/apiserver v0.0.0-20241206185754-3658357fea9f
	k8s.io/client-go v0.0.0-20241206182637-8e21410d16a5
	k8s.io/component-base v0.0.0-20241206184758-96018783480f
	k8s.io/klog/v2 v2.130.1
	k8s.io/utils v0.0.0-20241104100929-3ea5e8cea738
	sigs.k8s.io/yaml v1.4.0
)

require (
	cel.dev/expr v0.18.0 // indirect
	github.com/NYTimes/gziphandler v1.1.1 // indirect
	github.com/antlr4-go/antlr/v4 v4.13.0 // indirect
	github.com/asaskevich/govalidator v0.0.0-20190424111038-f61b66f89f4a // indirect
	github.com/beorn7/perks v1.0.1 // indirect
	github.com/cenkalti/backoff/v4 v4.3.0 // indirect
	github.com/cespare/xxhash/v2 v2.3.0 // indirect
	github.com/coreos/go-semver v0.3.1 // indirect
	github.com/coreos/go-systemd/v22 v22.5.0 // indirect
	github.com/davecgh/go-spew v1.1.2-0.20180830191138-d8f796af33cc // indirect
	github.com/emicklei/go-restful/v3 v3.11.0 // indirect
	github.com/felixge/httpsnoop v1.0.4 // indirect
	github.com/fsnotify/fsnotify v1.7.0 // indirect
	github.com/fxamacker/cbor/v2 v2.7.0 // indirect
	github.com/go-logr/logr v1.4.2 // indirect
	github.com/go-logr/stdr v1.2.2 // indirect
	github.com/go-logr/zapr v1.3.0 // indirect
	github.com/go-openapi/jsonpointer v0.21.0 // indirect
	github.com/go-openapi/jsonreference v0.20.2 // indirect
	github.com/go-openapi/swag v0.23.0 // indirect
	github.com/gogo/protobuf v1.3.2 // indirect
	github.com/golang/protobuf v1.5.4 // indirect
	github.com/google/btree v1.0.1 // indirect
	github.com/google/cel-go v0.22.0 // indirect
	github.com/google/gnostic-models v0.6.8 // indirect
	github.com/google/gofuzz v1.2.0 // indirect
	github.com/google/uuid v1.6.0 // indirect
	github.com/grpc-ecosystem/go-grpc-prometheus v1.2.0 // indirect
	github.com/grpc-ecosystem/grpc-gateway/v2 v2.20.0 // indirect
	github.com/inconshreveable/mousetrap v1.1.0 // indirect
	github.com/josharian/intern v1.0.0 // indirect
	github.com/json-iterator/go v1.1.12 // indirect
	github.com/mailru/easyjson v0.7.7 // indirect
	github.com/modern-go/concurrent v0.0.0-20180306012644-bacd9c7ef1dd // indirect
	github.com/modern-go/reflect2 v1.0.2 // indirect
	github.com/munnerz/goautoneg v0.0.0-20191010083416-a7dc8b61c822 // indirect
	github.com/pkg/errors v0.9.1 // indirect
	github.com/pmezard/go-difflib v1.0.1-0.20181226105442-5d4384ee4fb2 // indirect
	github.com/prometheus/client_golang v1.19.1 // indirect
	github.com/prometheus/client_model v0.6.1 // indirect
	github.com/prometheus/common v0.55.0 // indirect
	github.com/prometheus/procfs v0.15.1 // indirect
	github.com/stoewer/go-strcase v1.3.0 // indirect
	github.com/x448/float16 v0.8.4 // indirect
	go.etcd.io/etcd/api/v3 v3.5.16 // indirect
	go.etcd.io/etcd/client/pkg/v3 v3.5.16 // indirect
	go.etcd.io/etcd/client/v3 v3.5.16 // indirect
	go.opentelemetry.io/contrib/instrumentation/google.golang.org/grpc/otelgrpc v0.53.0 // indirect
	go.opentelemetry.io/contrib/instrumentation/net/http/otelhttp v0.53.0 // indirect
	go.opentelemetry.io/otel v1.28.0 // indirect
	go.opentelemetry.io/otel/exporters/otlp/otlptrace v1.28.0 // indirect
	go.opentelemetry.io/otel/exporters/otlp/otlptrace/otlptracegrpc v1.27.0 // indirect
	go.opentelemetry.io/otel/metric v1.28.0 // indirect
	go.opentelemetry.io/otel/sdk v1.28.0 // indirect
	go.opentelemetry.io/otel/trace v1.28.0 // indirect
	go.opentelemetry.io/proto/otlp v1.3.1 // indirect
	go.uber.org/multierr v1.11.0 // indirect
	go.uber.org/zap v1.27.0 // indirect
	golang.org/x/crypto v0.28.0 // indirect
	golang.org/x/exp v0.0.0-20240719175910-8a7402abbf56 // indirect
	golang.org/x/net v0.30.0 // indirect
	golang.org/x/oauth2 v0.23.0 // indirect
	golang.org/x/sync v0.8.0 // indirect
	golang.org/x/sys v0.26.0 // indirect
	golang.org/x/term v0.25.0 // indirect
	golang.org/x/text v0.19.0 // indirect
	golang.org/x/time v0.7.0 // indirect
	google.golang.org/genproto/googleapis/api v0.0.0-20240826202546-f6391c0de4c7 // indirect
	google.golang.org/genproto/googleapis/rpc v0.0.0-20240826202546-f6391c0de4c7 // indirect
	google.golang.org/grpc v1.65.0 // indirect
	google.golang.org/protobuf v1.35.1 // indirect
	gopkg.in/evanphx/json-patch.v4 v4.12.0 // indirect
	gopkg.in/inf.v0 v0.9.1 // indirect
	gopkg.in/natefinch/lumberjack.v2 v2.2.1 // indirect
	gopkg.in/yaml.v3 v3.0.1 // indirect
	k8s.io/kms v0.0.0-20241206185237-ab1750fa1ba2 // indirect
	k8s.io/kube-openapi v0.0.0-20241105132330-32ad38e42d3f // indirect
	sigs.k8s.io/apiserver-network-proxy/konnectivity-client v0.31.0 // indirect
	sigs.k8s.io/json v0.0.0-20241010143419-9aa6b5e7a4b3 // indirect
	sigs.k8s.io/structured-merge-diff/v4 v4.4.2 // indirect
)

require k8s.io/pod-security-admission v0.0.0
replace k8s.io/pod-security-admission => /repo

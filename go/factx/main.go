// factx: regenerates /verif/lean/Psa/Generated/*.lean from /repo's working tree.
//
//	F1 registration metadata (reflection on policy.DefaultChecks / ExperimentalChecks)
//	F2 allow-lists (run-time values through the verif hook; predicate functions and the volume switch through go/ast)
//	F4 per-revision field read-sets, F5 stores through the pod parameters (go/ssa)
//	F6 stores to AdmissionResponse fields with the origin of the pointer, F8 stores to package-level variables (go/ssa)
//	F7 constants and small tables (go/types)
//
// An unrecognised construct is a hard failure (exit 1): a fact is never silently skipped.
package main

import (
	"flag"
	"fmt"
	"go/ast"
	"go/constant"
	"go/token"
	"go/types"
	"os"
	"path/filepath"
	"sort"
	"strings"

	"encoding/json"

	"golang.org/x/tools/go/packages"
	"golang.org/x/tools/go/ssa"
	"golang.org/x/tools/go/ssa/ssautil"
)

// Dump is what the harness (which links the repository with -tags verif) wrote with -prop FACTS-DUMP.
type DumpRev struct {
	Major, Minor int
	Latest       bool
	Overrides    []string
	Func         string
}
type DumpCheck struct {
	ID, Level string
	Revs      []DumpRev
}
type Dump struct {
	Default                []DumpCheck         `json:"default"`
	Experimental           []DumpCheck         `json:"experimental"`
	Tables                 map[string][]string `json:"tables"`
	Consts                 map[string]string   `json:"consts"`
	VolumeJSONNames        map[string]string   `json:"volumeJSONNames"`
	PodSpecResources       []string            `json:"podSpecResources"`
	IgnoredPodSubresources []string            `json:"ignoredPodSubresources"`
	VolumeProbe            struct {
		Error    string      `json:"error"`
		Allowed  []string    `json:"allowed"`
		Bad      [][2]string `json:"bad"`
		Default  string      `json:"default"`
		Problems []string    `json:"problems"`
	} `json:"volumeProbe"`
}

var dump Dump

var failures []string

func fail(format string, a ...any) { failures = append(failures, fmt.Sprintf(format, a...)) }

func leanStr(s string) string {
	var b strings.Builder
	b.WriteString(`b!"`)
	for _, c := range []byte(s) {
		switch {
		case c == '"':
			b.WriteString(`\"`)
		case c == '\\':
			b.WriteString(`\\`)
		case c < 32 || c == 127:
			fmt.Fprintf(&b, `\x%02x`, c)
		default:
			b.WriteByte(c)
		}
	}
	b.WriteString(`"`)
	return b.String()
}

func leanStrs(l []string) string {
	parts := make([]string, len(l))
	for i, s := range l {
		parts[i] = leanStr(s)
	}
	return "[" + strings.Join(parts, ", ") + "]"
}

// pending: generated files are written only when every fact was extracted; after a failure the previous files stay (the
// orchestrator reports the failure; the model keeps the last tables that were fully extracted, so that what the
// correspondence then finds are differences in behaviour, not artefacts of a half-written table)
var pending [][2]string

func writeIfChanged(path, content string) { pending = append(pending, [2]string{path, content}) }

func writeNow(path, content string) {
	old, err := os.ReadFile(path)
	if err == nil && string(old) == content {
		return
	}
	os.MkdirAll(filepath.Dir(path), 0o755)
	if err := os.WriteFile(path, []byte(content), 0o644); err != nil {
		panic(err)
	}
}

// ---------------------------------------------------------------- F1

type revMeta struct {
	id           string
	level        string
	major, minor int
	overrides    []string
	fn           string // Go function name of CheckPod
}

func metaOf(checks []DumpCheck) (string, []revMeta) {
	var revs []revMeta
	var b strings.Builder
	for i, c := range checks {
		lvl := ".other"
		switch c.Level {
		case "privileged":
			lvl = ".privileged"
		case "baseline":
			lvl = ".baseline"
		case "restricted":
			lvl = ".restricted"
		}
		var rs []string
		for _, v := range c.Revs {
			rs = append(rs, fmt.Sprintf("(%d, %d, %s)", v.Major, v.Minor, leanStrs(v.Overrides)))
			revs = append(revs, revMeta{c.ID, c.Level, v.Major, v.Minor, v.Overrides, v.Func})
			if v.Latest {
				fail("check %s registers a revision at 'latest'", c.ID)
			}
		}
		sep := ","
		if i == len(checks)-1 {
			sep = ""
		}
		fmt.Fprintf(&b, "    (%s, %s, [%s])%s\n", leanStr(c.ID), lvl, strings.Join(rs, ", "), sep)
	}
	return b.String(), revs
}

// ---------------------------------------------------------------- F2 (AST part)

type astCtx struct {
	pkg *packages.Package
}

func (a *astCtx) funcDecl(name string) *ast.FuncDecl {
	for _, f := range a.pkg.Syntax {
		for _, d := range f.Decls {
			if fd, ok := d.(*ast.FuncDecl); ok && fd.Recv == nil && fd.Name.Name == name {
				return fd
			}
		}
	}
	return nil
}

func (a *astCtx) constString(e ast.Expr) (string, bool) {
	tv, ok := a.pkg.TypesInfo.Types[e]
	if !ok || tv.Value == nil || tv.Value.Kind() != constant.String {
		return "", false
	}
	return constant.StringVal(tv.Value), true
}

// predicate: the set of strings a small string predicate of package policy accepts, for ALL strings, whatever shape the
// function is written in. The body is evaluated symbolically: statements `return e`, `if c {..} else {..}`, `switch x {case C..}`,
// `switch {case c..}`; expressions || && ! ( ) == != against constants, len(x) ==/!=/> 0, strings.HasPrefix(x, C), true/false,
// and calls of other package-local predicates on the same argument. Every atom is "x equals a constant", "x is empty" or
// "x has a constant prefix", so the function's value on a string is determined by which constants it equals and which of
// the mentioned prefixes it has; the witnesses {each constant, each prefix + a byte no constant continues with, "", a fresh
// string} realise every such combination, and evaluating the function on them yields the accepted exact values and prefixes.
// Anything else in the body (assignments, loops, other calls) is a hard failure.
type symPred struct {
	a      *astCtx
	name   string
	consts map[string]bool
	pfx    map[string]bool
	ok     bool
}

func (sp *symPred) bad(format string, args ...any) func(string) bool {
	if sp.ok {
		fail("F2: %s: "+format, append([]any{sp.name}, args...)...)
	}
	sp.ok = false
	return func(string) bool { return false }
}

func (sp *symPred) expr(e ast.Expr, param string, depth int) func(string) bool {
	a := sp.a
	switch x := e.(type) {
	case *ast.ParenExpr:
		return sp.expr(x.X, param, depth)
	case *ast.Ident:
		if x.Name == "true" {
			return func(string) bool { return true }
		}
		if x.Name == "false" {
			return func(string) bool { return false }
		}
		return sp.bad("unrecognised identifier %s in a condition", x.Name)
	case *ast.UnaryExpr:
		if x.Op == token.NOT {
			f := sp.expr(x.X, param, depth)
			return func(s string) bool { return !f(s) }
		}
	case *ast.BinaryExpr:
		switch x.Op {
		case token.LOR:
			f, g := sp.expr(x.X, param, depth), sp.expr(x.Y, param, depth)
			return func(s string) bool { return f(s) || g(s) }
		case token.LAND:
			f, g := sp.expr(x.X, param, depth), sp.expr(x.Y, param, depth)
			return func(s string) bool { return f(s) && g(s) }
		case token.EQL, token.NEQ, token.GTR:
			neg := x.Op == token.NEQ
			isParam := func(e ast.Expr) bool {
				if call, ok := e.(*ast.CallExpr); ok && len(call.Args) == 1 { // string(x) conversions
					if tv, ok := a.pkg.TypesInfo.Types[call.Fun]; ok && tv.IsType() {
						return isIdent(call.Args[0], param)
					}
				}
				return isIdent(e, param)
			}
			lenOfParam := func(e ast.Expr) bool {
				call, ok := e.(*ast.CallExpr)
				return ok && isIdent(call.Fun, "len") && len(call.Args) == 1 && isParam(call.Args[0])
			}
			zero := func(e ast.Expr) bool {
				tv := a.pkg.TypesInfo.Types[e]
				return tv.Value != nil && tv.Value.String() == "0"
			}
			if lenOfParam(x.X) && zero(x.Y) {
				sp.consts[""] = true
				if x.Op == token.EQL {
					return func(s string) bool { return s == "" }
				}
				return func(s string) bool { return s != "" } // != 0 and > 0
			}
			if x.Op == token.GTR {
				break
			}
			var c string
			var ok bool
			if isParam(x.X) {
				c, ok = a.constString(x.Y)
			} else if isParam(x.Y) {
				c, ok = a.constString(x.X)
			}
			if ok {
				sp.consts[c] = true
				return func(s string) bool { return (s == c) != neg }
			}
		}
	case *ast.CallExpr:
		if sel, ok := x.Fun.(*ast.SelectorExpr); ok && isIdent(sel.X, "strings") && len(x.Args) == 2 && isIdent(x.Args[0], param) {
			if c, ok := a.constString(x.Args[1]); ok && sel.Sel.Name == "HasPrefix" {
				sp.pfx[c] = true
				return func(s string) bool { return strings.HasPrefix(s, c) }
			}
		}
		if id, ok := x.Fun.(*ast.Ident); ok && len(x.Args) == 1 && isIdent(x.Args[0], param) && depth < 4 {
			if fd := a.funcDecl(id.Name); fd != nil && fd.Body != nil && fd.Type.Params != nil && len(fd.Type.Params.List) == 1 && len(fd.Type.Params.List[0].Names) == 1 {
				return sp.stmts(fd.Body.List, fd.Type.Params.List[0].Names[0].Name, depth+1)
			}
		}
	}
	return sp.bad("unrecognised condition %T", e)
}

// stmts: the value the function returns when control enters this statement list (falling off the end is not allowed)
func (sp *symPred) stmts(list []ast.Stmt, param string, depth int) func(string) bool {
	if len(list) == 0 {
		return sp.bad("control can fall off the end")
	}
	rest := list[1:]
	switch st := list[0].(type) {
	case *ast.ReturnStmt:
		if len(st.Results) != 1 {
			return sp.bad("unexpected return")
		}
		return sp.expr(st.Results[0], param, depth)
	case *ast.BlockStmt:
		return sp.stmts(append(append([]ast.Stmt{}, st.List...), rest...), param, depth)
	case *ast.IfStmt:
		if st.Init != nil {
			return sp.bad("if with an init statement")
		}
		c := sp.expr(st.Cond, param, depth)
		th := sp.stmts(append(append([]ast.Stmt{}, st.Body.List...), rest...), param, depth)
		var el func(string) bool
		switch e := st.Else.(type) {
		case nil:
			el = sp.stmts(rest, param, depth)
		case *ast.BlockStmt:
			el = sp.stmts(append(append([]ast.Stmt{}, e.List...), rest...), param, depth)
		case *ast.IfStmt:
			el = sp.stmts(append([]ast.Stmt{e}, rest...), param, depth)
		default:
			return sp.bad("unrecognised else")
		}
		return func(s string) bool {
			if c(s) {
				return th(s)
			}
			return el(s)
		}
	case *ast.SwitchStmt:
		if st.Init != nil {
			return sp.bad("switch with an init statement")
		}
		type clause struct {
			cond func(string) bool
			body func(string) bool
		}
		var clauses []clause
		var def func(string) bool
		for _, cl := range st.Body.List {
			cc := cl.(*ast.CaseClause)
			for _, b := range cc.Body {
				if br, ok := b.(*ast.BranchStmt); ok && br.Tok == token.FALLTHROUGH {
					return sp.bad("fallthrough")
				}
			}
			body := sp.stmts(append(append([]ast.Stmt{}, cc.Body...), rest...), param, depth)
			if cc.List == nil {
				def = body
				continue
			}
			var conds []func(string) bool
			for _, e := range cc.List {
				if st.Tag == nil {
					conds = append(conds, sp.expr(e, param, depth))
				} else {
					conds = append(conds, sp.expr(&ast.BinaryExpr{X: st.Tag, Op: token.EQL, Y: e}, param, depth))
				}
			}
			clauses = append(clauses, clause{func(s string) bool {
				for _, c := range conds {
					if c(s) {
						return true
					}
				}
				return false
			}, body})
		}
		if def == nil {
			def = sp.stmts(rest, param, depth)
		}
		return func(s string) bool {
			for _, cl := range clauses {
				if cl.cond(s) {
					return cl.body(s)
				}
			}
			return def(s)
		}
	}
	return sp.bad("unrecognised statement %T", list[0])
}

func (a *astCtx) predicate(name string) (exact []string, prefixes []string) {
	fd := a.funcDecl(name)
	if fd == nil || fd.Body == nil || fd.Type.Params == nil || len(fd.Type.Params.List) != 1 || len(fd.Type.Params.List[0].Names) != 1 {
		fail("F2: predicate %s not found (or not a function of one parameter)", name)
		return
	}
	sp := &symPred{a: a, name: name, consts: map[string]bool{}, pfx: map[string]bool{}, ok: true}
	f := sp.stmts(fd.Body.List, fd.Type.Params.List[0].Names[0].Name, 0)
	if !sp.ok {
		return
	}
	// a byte that continues no mentioned constant or prefix
	sep := "\x01"
	for p := range sp.pfx {
		if f(p + sep) {
			prefixes = append(prefixes, p)
		}
	}
	sort.Strings(prefixes)
	covered := func(c string) bool {
		for _, p := range prefixes {
			if strings.HasPrefix(c, p) {
				return true
			}
		}
		return false
	}
	sp.consts[""] = true
	for c := range sp.consts {
		if f(c) && !covered(c) {
			exact = append(exact, c)
		}
	}
	sort.Strings(exact)
	if f(sep + "fresh") {
		fail("F2: %s accepts a string it does not mention", name)
	}
	// the table (exact values + prefixes) must reproduce the function on every witness
	table := func(s string) bool {
		for _, c := range exact {
			if s == c {
				return true
			}
		}
		return covered(s)
	}
	witnesses := []string{"", sep + "fresh"}
	for c := range sp.consts {
		witnesses = append(witnesses, c)
	}
	for p := range sp.pfx {
		witnesses = append(witnesses, p, p+sep)
	}
	for _, w := range witnesses {
		if f(w) != table(w) {
			fail("F2: %s is not of the form (exact values or one of the prefixes): differs on %q", name, w)
		}
	}
	return
}

func isIdent(e ast.Expr, name string) bool {
	id, ok := e.(*ast.Ident)
	return ok && id.Name == name
}

func singleReturnBool(body []ast.Stmt) (bool, bool) {
	if len(body) != 1 {
		return false, false
	}
	r, ok := body[0].(*ast.ReturnStmt)
	if !ok || len(r.Results) != 1 {
		return false, false
	}
	id, ok := r.Results[0].(*ast.Ident)
	if !ok || (id.Name != "true" && id.Name != "false") {
		return false, false
	}
	return id.Name == "true", true
}

// the volume-source table of the restricted volume-types control, as probed by the harness through the registered check
// (every single source kind, every pair): the allowed kinds, the (kind, reported name) pairs in order of precedence, the
// name reported for anything else
func (a *astCtx) volumeSwitches() (allowed []string, bad [][2]string) {
	vp := dump.VolumeProbe
	if vp.Error != "" {
		fail("F2: volume probe: %s", vp.Error)
		return
	}
	for _, p := range vp.Problems {
		fail("F2: volume probe: %s", p)
	}
	allowed = vp.Allowed
	bad = append(bad, vp.Bad...)
	bad = append(bad, [2]string{"", vp.Default})
	return
}

// ---------------------------------------------------------------- SSA helpers

// originMemo: origin is a function of the value alone; a value met again while its own origin is being computed (a loop
// through phi nodes) contributes nothing new and is cut
var originMemo = map[ssa.Value]string{}

func origin(v ssa.Value, depth int) string {
	if depth > 12 {
		return "unknown:deep"
	}
	if depth > 0 {
		if o, ok := originMemo[v]; ok {
			return o
		}
		originMemo[v] = "cycle"
		o := originOf(v, depth)
		if strings.Contains(o, "unknown:deep") {
			delete(originMemo, v) // cut by the depth limit: depends on where the walk started
		} else {
			originMemo[v] = o
		}
		return o
	}
	return originOf(v, depth)
}

func originOf(v ssa.Value, depth int) string {
	switch x := v.(type) {
	case *ssa.Alloc:
		return "fresh:alloc"
	case *ssa.Call:
		if f := x.Call.StaticCallee(); f != nil {
			return "call:" + f.Name()
		}
		if x.Call.IsInvoke() {
			return "invoke:" + x.Call.Method.Name()
		}
		return "call:dynamic"
	case *ssa.Global:
		return "global:" + x.Name()
	case *ssa.UnOp:
		if x.Op == token.MUL {
			if g, ok := x.X.(*ssa.Global); ok {
				return "shared:" + g.Name()
			}
			return "load(" + origin(x.X, depth+1) + ")"
		}
	case *ssa.Phi:
		seen := map[string]bool{}
		var parts []string
		for _, e := range x.Edges {
			o := origin(e, depth+1)
			if !seen[o] {
				seen[o] = true
				parts = append(parts, o)
			}
		}
		sort.Strings(parts)
		return "phi{" + strings.Join(parts, ",") + "}"
	case *ssa.Parameter:
		return "param:" + x.Name()
	case *ssa.FieldAddr:
		return origin(x.X, depth+1)
	case *ssa.IndexAddr:
		return origin(x.X, depth+1)
	case *ssa.FreeVar:
		return "freevar:" + x.Name()
	case *ssa.MakeInterface:
		return origin(x.X, depth+1)
	case *ssa.ChangeType:
		return origin(x.X, depth+1)
	case *ssa.Slice:
		return origin(x.X, depth+1)
	case *ssa.Extract:
		return "extract(" + origin(x.Tuple, depth+1) + ")"
	}
	return fmt.Sprintf("unknown:%T", v)
}

// reach: f, its anonymous functions and its static callees inside the same package
func reach(f *ssa.Function, seen map[*ssa.Function]bool) {
	if f == nil || seen[f] || f.Blocks == nil {
		return
	}
	seen[f] = true
	for _, af := range f.AnonFuncs {
		reach(af, seen)
	}
	for _, b := range f.Blocks {
		for _, ins := range b.Instrs {
			if c, ok := ins.(ssa.CallInstruction); ok {
				if callee := c.Common().StaticCallee(); callee != nil && callee.Pkg == f.Pkg {
					reach(callee, seen)
				}
			}
		}
	}
}

func structField(t types.Type, i int) (string, bool) {
	if p, ok := t.Underlying().(*types.Pointer); ok {
		t = p.Elem()
	}
	named, _ := t.(*types.Named)
	st, ok := t.Underlying().(*types.Struct)
	if !ok || named == nil {
		return "", false
	}
	pkg := ""
	if named.Obj().Pkg() != nil {
		pkg = named.Obj().Pkg().Path()
	}
	if !strings.HasPrefix(pkg, "k8s.io/api/") && !strings.HasPrefix(pkg, "k8s.io/apimachinery/pkg/apis/meta") {
		return "", false
	}
	return named.Obj().Name() + "." + st.Field(i).Name(), true
}

func readSet(f *ssa.Function) []string {
	seen := map[*ssa.Function]bool{}
	reach(f, seen)
	set := map[string]bool{}
	for fn := range seen {
		for _, b := range fn.Blocks {
			for _, ins := range b.Instrs {
				switch x := ins.(type) {
				case *ssa.FieldAddr:
					if s, ok := structField(x.X.Type(), x.Field); ok {
						set[s] = true
					}
				case *ssa.Field:
					if s, ok := structField(x.X.Type(), x.Field); ok {
						set[s] = true
					}
				}
			}
		}
	}
	out := []string{}
	for k := range set {
		out = append(out, k)
	}
	sort.Strings(out)
	return out
}

// writes through values derived from the pod parameters (or captured copies of them)
func podWrites(f *ssa.Function) []string {
	seen := map[*ssa.Function]bool{}
	reach(f, seen)
	var out []string
	fromPod := func(v ssa.Value) bool {
		o := origin(v, 0)
		return strings.Contains(o, "param:podMetadata") || strings.Contains(o, "param:podSpec") || strings.Contains(o, "freevar:podMetadata") ||
			strings.Contains(o, "freevar:podSpec") || strings.Contains(o, "param:container") || strings.Contains(o, "param:c)") || o == "param:c" || strings.Contains(o, "param:opts")
	}
	for fn := range seen {
		for _, b := range fn.Blocks {
			for _, ins := range b.Instrs {
				switch x := ins.(type) {
				case *ssa.Store:
					if _, isAlloc := x.Addr.(*ssa.Alloc); isAlloc {
						continue
					}
					if fromPod(x.Addr) {
						out = append(out, fmt.Sprintf("%s: store through %s", fn.Name(), origin(x.Addr, 0)))
					}
				case *ssa.MapUpdate:
					if fromPod(x.Map) {
						out = append(out, fmt.Sprintf("%s: map update through %s", fn.Name(), origin(x.Map, 0)))
					}
				case *ssa.Call:
					// append(s, ...) with s a slice held by the pod writes into s's backing array whenever s has spare capacity
					// (the caller's memory, possibly shared with other objects) — unless s's capacity was clipped (s[a:b:c])
					if bi, ok := x.Call.Value.(*ssa.Builtin); ok && bi.Name() == "append" && len(x.Call.Args) > 0 {
						clipped := false
						if sl, ok := x.Call.Args[0].(*ssa.Slice); ok && sl.Max != nil {
							clipped = true
						}
						if !clipped && fromPod(x.Call.Args[0]) {
							out = append(out, fmt.Sprintf("%s: append to a slice reached from the pod (%s)", fn.Name(), origin(x.Call.Args[0], 0)))
						}
					}
					if callee := x.Call.StaticCallee(); callee != nil && callee.Pkg != nil && callee.Pkg.Pkg.Path() == "sort" {
						for _, a := range x.Call.Args {
							if fromPod(a) {
								out = append(out, fmt.Sprintf("%s: sort.%s of a value reached from the pod", fn.Name(), callee.Name()))
							}
						}
					}
				}
			}
		}
	}
	sort.Strings(out)
	return out
}

func dedup(l []string) []string {
	var out []string
	for i, x := range l {
		if i == 0 || l[i-1] != x {
			out = append(out, x)
		}
	}
	return out
}

// revExtra: per registered revision, what the search for a failing input uses when a read-set obligation breaks: the fields
// read and the string constants the function (with its closures and package-local callees) mentions
type revExtra struct {
	ID       string
	Minor    int
	Reads    []string
	Literals []string
}

// globalInitLiterals: the string constants in the initialiser of a package-level variable (e.g. the elements of an allow-list)
var globalInitLiterals func(name string) []string

func literals(f *ssa.Function) []string {
	seen := map[*ssa.Function]bool{}
	reach(f, seen)
	set := map[string]bool{}
	for fn := range seen {
		for _, b := range fn.Blocks {
			for _, ins := range b.Instrs {
				for _, op := range ins.Operands(nil) {
					if g, ok := (*op).(*ssa.Global); ok && globalInitLiterals != nil {
						for _, v := range globalInitLiterals(g.Name()) {
							set[v] = true
						}
					}
					if c, ok := (*op).(*ssa.Const); ok && c.Value != nil && c.Value.Kind() == constant.String {
						if v := constant.StringVal(c.Value); len(v) < 80 {
							set[v] = true
						}
					}
				}
			}
		}
	}
	out := []string{}
	for k := range set {
		out = append(out, k)
	}
	sort.Strings(out)
	return out
}

// ---- receiver locality (used by F9) ------------------------------------------------------------------------------------
// A store through a pointer receiver matters to F9 only when the object can outlive the call. receiverStaysLocal(m) is true
// when every object the pointer-receiver method m can ever be called on is a local variable of one function activation that
// is never stored anywhere, returned, captured, converted to an interface or passed to anything but pointer-receiver methods
// of the same type (which are checked the same way). Anything it cannot see through makes it answer false.
var recvLocalMemo = map[*ssa.Function]bool{}

func pointerStaysLocal(v ssa.Value, named *types.Named, visiting map[ssa.Value]bool) bool {
	if visiting[v] {
		return true
	}
	visiting[v] = true
	refs := v.Referrers()
	if refs == nil {
		return false
	}
	var fieldOK func(a ssa.Value) bool
	fieldOK = func(a ssa.Value) bool {
		rs := a.Referrers()
		if rs == nil {
			return false
		}
		for _, r := range *rs {
			switch x := r.(type) {
			case *ssa.DebugRef:
			case *ssa.Store:
				if x.Addr != a || x.Val == a {
					return false
				}
			case *ssa.UnOp:
				if x.Op != token.MUL {
					return false
				}
			case *ssa.FieldAddr:
				if !fieldOK(x) {
					return false
				}
			case *ssa.IndexAddr:
				if _, isArr := x.X.Type().Underlying().(*types.Pointer); !isArr || !fieldOK(x) {
					return false
				}
			default:
				return false
			}
		}
		return true
	}
	for _, r := range *refs {
		switch x := r.(type) {
		case *ssa.DebugRef:
		case *ssa.Store:
			if x.Val == v {
				// the pointer is put into a local variable: fine when that variable stays local too
				slot, isSlot := x.Addr.(*ssa.Alloc)
				if !isSlot || x.Addr == v || !slotStaysLocal(slot, named, visiting) {
					return false
				}
			} else if x.Addr != v {
				return false
			}
		case *ssa.UnOp:
			if x.Op != token.MUL {
				return false
			}
		case *ssa.FieldAddr:
			if !fieldOK(x) {
				return false
			}
		case *ssa.MakeClosure:
			// captured by a function literal: the literal can do with the variable only what its body does
			fn, ok := x.Fn.(*ssa.Function)
			if !ok {
				return false
			}
			for i, bnd := range x.Bindings {
				if bnd == v {
					if i >= len(fn.FreeVars) || !pointerStaysLocal(fn.FreeVars[i], named, visiting) {
						return false
					}
				}
			}
		case *ssa.Return:
			// handed back to the caller: fine when every caller (all of them statically known) keeps it local in turn
			f := x.Parent()
			if f == nil || f.Parent() != nil || (f.Object() != nil && f.Object().Exported()) || len(x.Results) != 1 || funcUsedAsValue(f) {
				return false
			}
			sites := 0
			for _, g := range freshFns {
				for _, b := range g.Blocks {
					for _, ins := range b.Instrs {
						if ci, ok := ins.(ssa.CallInstruction); ok && ci.Common().StaticCallee() == f {
							cv, isVal := ins.(*ssa.Call)
							if !isVal || !pointerStaysLocal(cv, named, visiting) {
								return false
							}
							sites++
						}
					}
				}
			}
			if sites == 0 {
				return false
			}
		case ssa.CallInstruction:
			// passed to a function of the module (as receiver or as an ordinary argument): that function's parameter must stay
			// local in the same sense
			c := x.Common()
			callee := c.StaticCallee()
			if callee == nil || callee.Blocks == nil || callee.Pkg == nil || !strings.HasPrefix(callee.Pkg.Pkg.Path(), freshMod) || len(callee.Params) != len(c.Args) {
				return false
			}
			for i, a := range c.Args {
				if a == v && !pointerStaysLocal(callee.Params[i], named, visiting) {
					return false
				}
			}
		default:
			return false
		}
	}
	return true
}

// slotStaysLocal: a local variable (or a captured one) that holds a *T: everything stored into it is a fresh pointer that stays
// local, everything loaded from it stays local, and the variable itself is only captured by function literals that treat it
// the same way
func slotStaysLocal(slot ssa.Value, named *types.Named, visiting map[ssa.Value]bool) bool {
	if visiting[slot] {
		return true
	}
	visiting[slot] = true
	refs := slot.Referrers()
	if refs == nil {
		return false
	}
	for _, r := range *refs {
		switch x := r.(type) {
		case *ssa.DebugRef:
		case *ssa.Store:
			if x.Addr != slot || x.Val == slot {
				return false
			}
			if c, isConst := x.Val.(*ssa.Const); isConst && c.IsNil() {
				continue
			}
			if !isFresh(x.Val) || !pointerStaysLocal(x.Val, named, visiting) {
				return false
			}
		case *ssa.UnOp:
			if x.Op != token.MUL || !pointerStaysLocal(x, named, visiting) {
				return false
			}
		case *ssa.MakeClosure:
			fn, ok := x.Fn.(*ssa.Function)
			if !ok {
				return false
			}
			for i, bnd := range x.Bindings {
				if bnd == slot {
					if i >= len(fn.FreeVars) || !slotStaysLocal(fn.FreeVars[i], named, visiting) {
						return false
					}
				}
			}
		default:
			return false
		}
	}
	return true
}

func receiverStaysLocal(prog *ssa.Program, m *ssa.Function, modFns []*ssa.Function) bool {
	if r, ok := recvLocalMemo[m]; ok {
		return r
	}
	res := func() bool {
		if m.Signature.Recv() == nil || len(m.Params) == 0 {
			return false
		}
		pt, isPtr := m.Params[0].Type().(*types.Pointer)
		if !isPtr {
			return false
		}
		named, ok := pt.Elem().(*types.Named)
		if !ok || named.Obj().Exported() {
			return false // values of an exported type can be made and kept by other packages
		}
		sites := 0
		for _, f := range modFns {
			for _, b := range f.Blocks {
				for _, ins := range b.Instrs {
					if mi, ok := ins.(*ssa.MakeInterface); ok {
						t := mi.X.Type()
						if p2, ok := t.(*types.Pointer); ok {
							t = p2.Elem()
						}
						if types.Identical(t, named) {
							return false // may be called through an interface
						}
					}
					if ci, ok := ins.(ssa.CallInstruction); ok && ci.Common().StaticCallee() == m {
						c := ci.Common()
						recvArg := c.Args[0]
						for hops := 0; hops < 8; hops++ { // a captured variable: the variable of the enclosing function
							fv, isFV := recvArg.(*ssa.FreeVar)
							if !isFV || fv.Parent() == nil || fv.Parent().Parent() == nil {
								break
							}
							var bound ssa.Value
							for _, pb := range fv.Parent().Parent().Blocks {
								for _, pi := range pb.Instrs {
									if mc, ok := pi.(*ssa.MakeClosure); ok && mc.Fn == ssa.Value(fv.Parent()) {
										for k, v2 := range fv.Parent().FreeVars {
											if v2 == fv && k < len(mc.Bindings) {
												bound = mc.Bindings[k]
											}
										}
									}
								}
							}
							if bound == nil {
								break
							}
							recvArg = bound
						}
						if call, isCall := recvArg.(*ssa.Call); isCall {
							// the result of a constructor: a fresh object that must stay local from here on
							if !isFresh(call) || !pointerStaysLocal(call, named, map[ssa.Value]bool{}) {
								return false
							}
							sites++
							continue
						}
						if ld, isLoad := recvArg.(*ssa.UnOp); isLoad && ld.Op == token.MUL {
							// read from a local (possibly captured) variable holding the pointer
							switch ld.X.(type) {
							case *ssa.Alloc, *ssa.FreeVar:
								if !slotStaysLocal(ld.X, named, map[ssa.Value]bool{}) {
									return false
								}
								// a captured variable: the variable of the enclosing function must stay local as well
								cur := ld.X
								okChain := true
								for hops := 0; hops < 8 && okChain; hops++ {
									fv, isFV := cur.(*ssa.FreeVar)
									if !isFV || fv.Parent() == nil || fv.Parent().Parent() == nil {
										break
									}
									var bound ssa.Value
									for _, pb := range fv.Parent().Parent().Blocks {
										for _, pi := range pb.Instrs {
											if mc, ok := pi.(*ssa.MakeClosure); ok && mc.Fn == ssa.Value(fv.Parent()) {
												for k, v2 := range fv.Parent().FreeVars {
													if v2 == fv && k < len(mc.Bindings) {
														bound = mc.Bindings[k]
													}
												}
											}
										}
									}
									if bound == nil {
										okChain = false
										break
									}
									if !slotStaysLocal(bound, named, map[ssa.Value]bool{}) {
										okChain = false
									}
									cur = bound
								}
								if !okChain {
									return false
								}
								sites++
								continue
							}
							return false
						}
						alloc, isAlloc := recvArg.(*ssa.Alloc)
						if !isAlloc {
							if par, isPar := c.Args[0].(*ssa.Parameter); isPar && f.Signature.Recv() != nil && len(f.Params) > 0 && f.Params[0] == par {
								// called on the caller's own receiver: local iff the caller's receiver is
								if f != m && !receiverStaysLocalGuard(prog, f, modFns) {
									return false
								}
								sites++
								continue
							}
							return false
						}
						if !pointerStaysLocal(alloc, named, map[ssa.Value]bool{}) {
							return false
						}
						sites++
						continue
					}
					for _, op := range ins.Operands(nil) {
						if op != nil && *op == ssa.Value(m) {
							if ci, ok := ins.(ssa.CallInstruction); ok && ci.Common().Value == ssa.Value(m) {
								continue
							}
							return false // used as a value (method value, go / defer through a variable, ...)
						}
					}
				}
			}
		}
		return sites > 0
	}()
	recvLocalMemo[m] = res
	return res
}

var recvLocalBusy = map[*ssa.Function]bool{}

func receiverStaysLocalGuard(prog *ssa.Program, m *ssa.Function, modFns []*ssa.Function) bool {
	if recvLocalBusy[m] {
		return true
	}
	recvLocalBusy[m] = true
	defer delete(recvLocalBusy, m)
	return receiverStaysLocal(prog, m, modFns)
}

// ---- freshness (used by F6) ---------------------------------------------------------------------------------------------
// isFresh(v): the pointer v can only point to memory allocated during the current request-handling activation: an
// allocation; the result of a module function all of whose returns are fresh; a phi of fresh values; a parameter of an
// unexported, never-passed-around function whose argument is fresh at every call site of the module; a load from a local
// variable into which only fresh values are stored. Cycles are resolved optimistically (greatest fixed point): a loop that
// only ever carries fresh pointers around stays fresh. Anything else — globals, loads from heap objects, results of
// interface calls, parameters of exported functions — is not fresh.
var freshMemo = map[ssa.Value]bool{}
var freshBusy = map[ssa.Value]bool{}
var freshFns []*ssa.Function // every function of the module
var freshMod string

func funcUsedAsValue(f *ssa.Function) bool {
	for _, g := range freshFns {
		for _, b := range g.Blocks {
			for _, ins := range b.Instrs {
				for _, op := range ins.Operands(nil) {
					if op != nil && *op == ssa.Value(f) {
						if ci, ok := ins.(ssa.CallInstruction); ok && ci.Common().Value == ssa.Value(f) {
							continue
						}
						return true
					}
				}
			}
		}
	}
	return false
}

func isFresh(v ssa.Value) bool {
	if r, ok := freshMemo[v]; ok {
		return r
	}
	if freshBusy[v] {
		return true
	}
	freshBusy[v] = true
	r := isFresh1(v)
	delete(freshBusy, v)
	freshMemo[v] = r
	return r
}

func returnsFresh(f *ssa.Function, idx int) bool {
	if f == nil || f.Blocks == nil || f.Pkg == nil || !strings.HasPrefix(f.Pkg.Pkg.Path(), freshMod) {
		return false
	}
	n := 0
	for _, b := range f.Blocks {
		if len(b.Instrs) == 0 {
			continue
		}
		if ret, ok := b.Instrs[len(b.Instrs)-1].(*ssa.Return); ok {
			if idx >= len(ret.Results) || !isFresh(ret.Results[idx]) {
				return false
			}
			n++
		}
	}
	return n > 0
}

func isFresh1(v ssa.Value) bool {
	switch x := v.(type) {
	case *ssa.Alloc:
		if x.Heap {
			return true
		}
		// the address of a local variable: fresh memory of this activation
		return true
	case *ssa.Const:
		return x.IsNil() // a store through nil panics; it cannot reach anybody's memory
	case *ssa.Call:
		return returnsFresh(x.Call.StaticCallee(), 0)
	case *ssa.Extract:
		if c, ok := x.Tuple.(*ssa.Call); ok {
			return returnsFresh(c.Call.StaticCallee(), x.Index)
		}
		return false
	case *ssa.Phi:
		for _, e := range x.Edges {
			if !isFresh(e) {
				return false
			}
		}
		return true
	case *ssa.FieldAddr:
		return isFresh(x.X)
	case *ssa.IndexAddr:
		return isFresh(x.X)
	case *ssa.ChangeType:
		return isFresh(x.X)
	case *ssa.MakeInterface:
		return isFresh(x.X)
	case *ssa.UnOp:
		if x.Op != token.MUL {
			return false
		}
		// a load: fresh only from a local variable slot into which only fresh pointers are ever stored
		a, ok := x.X.(*ssa.Alloc)
		if !ok || a.Referrers() == nil {
			return false
		}
		stores := 0
		for _, r := range *a.Referrers() {
			switch y := r.(type) {
			case *ssa.Store:
				if y.Addr == ssa.Value(a) {
					if !isFresh(y.Val) {
						return false
					}
					stores++
				} else {
					return false // the slot's address is stored somewhere
				}
			case *ssa.UnOp, *ssa.DebugRef:
			case *ssa.MakeClosure:
				// captured: the literal could store anything into it; look at its stores through the free variable
				fn, ok := y.Fn.(*ssa.Function)
				if !ok {
					return false
				}
				for i, bnd := range y.Bindings {
					if bnd == ssa.Value(a) && i < len(fn.FreeVars) && fn.FreeVars[i].Referrers() != nil {
						for _, fr := range *fn.FreeVars[i].Referrers() {
							if st, ok := fr.(*ssa.Store); ok && st.Addr == ssa.Value(fn.FreeVars[i]) && !isFresh(st.Val) {
								return false
							}
						}
					}
				}
			default:
				return false
			}
		}
		return stores > 0
	case *ssa.Parameter:
		f := x.Parent()
		if f == nil || f.Parent() != nil {
			return false
		}
		if f.Object() != nil && f.Object().Exported() {
			return false // callable from outside the module
		}
		if f.Signature.Recv() != nil {
			if n, ok := f.Signature.Recv().Type().(*types.Pointer); ok {
				if nn, ok := n.Elem().(*types.Named); ok && nn.Obj().Exported() {
					return false
				}
			}
		}
		if funcUsedAsValue(f) {
			return false
		}
		idx := -1
		for i, p := range f.Params {
			if p == x {
				idx = i
			}
		}
		if idx < 0 {
			return false
		}
		sites := 0
		for _, g := range freshFns {
			for _, b := range g.Blocks {
				for _, ins := range b.Instrs {
					if ci, ok := ins.(ssa.CallInstruction); ok && ci.Common().StaticCallee() == f {
						if idx >= len(ci.Common().Args) || !isFresh(ci.Common().Args[idx]) {
							return false
						}
						sites++
					}
				}
			}
		}
		return sites > 0
	}
	return false
}

// entryPoints: the exported functions / methods (of the module) from which f is reachable through static calls; f itself when
// it is exported, or when nothing exported reaches it statically
func entryPoints(f *ssa.Function, modFns []*ssa.Function) []*ssa.Function {
	exported := func(g *ssa.Function) bool { return g.Object() != nil && g.Object().Exported() }
	if exported(f) {
		return []*ssa.Function{f}
	}
	callers := map[*ssa.Function][]*ssa.Function{}
	for _, g := range modFns {
		root := g
		for root.Parent() != nil {
			root = root.Parent()
		}
		for _, b := range g.Blocks {
			for _, ins := range b.Instrs {
				if ci, ok := ins.(ssa.CallInstruction); ok {
					if c := ci.Common().StaticCallee(); c != nil {
						callers[c] = append(callers[c], root)
					}
				}
			}
		}
	}
	seen := map[*ssa.Function]bool{f: true}
	var out []*ssa.Function
	work := []*ssa.Function{f}
	for len(work) > 0 {
		g := work[0]
		work = work[1:]
		for _, c := range callers[g] {
			if seen[c] {
				continue
			}
			seen[c] = true
			if exported(c) {
				out = append(out, c)
			} else {
				work = append(work, c)
			}
		}
	}
	if len(out) == 0 {
		return []*ssa.Function{f}
	}
	sort.Slice(out, func(i, j int) bool { return out[i].String() < out[j].String() })
	return out
}

func allFunctions(prog *ssa.Program, p *ssa.Package) []*ssa.Function {
	var fns []*ssa.Function
	seen := map[*ssa.Function]bool{}
	var add func(f *ssa.Function)
	add = func(f *ssa.Function) {
		if f == nil || seen[f] {
			return
		}
		seen[f] = true
		fns = append(fns, f)
		for _, af := range f.AnonFuncs {
			add(af)
		}
	}
	for _, m := range p.Members {
		if f, ok := m.(*ssa.Function); ok {
			add(f)
		}
		if tp, ok := m.(*ssa.Type); ok {
			for _, t := range []types.Type{tp.Type(), types.NewPointer(tp.Type())} {
				ms := prog.MethodSets.MethodSet(t)
				for i := 0; i < ms.Len(); i++ {
					if f := prog.MethodValue(ms.At(i)); f != nil && f.Pkg == p {
						add(f)
					}
				}
			}
		}
	}
	sort.Slice(fns, func(i, j int) bool { return fns[i].String() < fns[j].String() })
	return fns
}

// ---------------------------------------------------------------- main

func main() {
	repo := flag.String("repo", "/repo", "repository")
	out := flag.String("out", "/verif/lean/Psa/Generated", "output directory")
	dumpFile := flag.String("dump", "/verif/work/facts_dump.json", "run-time facts written by the harness")
	flag.Parse()
	if b, err := os.ReadFile(*dumpFile); err != nil {
		fmt.Fprintln(os.Stderr, err)
		os.Exit(1)
	} else if err := json.Unmarshal(b, &dump); err != nil {
		fmt.Fprintln(os.Stderr, err)
		os.Exit(1)
	}

	cfg := &packages.Config{Mode: packages.LoadAllSyntax, Dir: *repo, BuildFlags: []string{"-tags=verif"}, Env: os.Environ()}
	pkgs, err := packages.Load(cfg, "./admission", "./cmd/webhook/server", "./policy", "./api", "./metrics", "./admission/api", "./admission/api/load", "./admission/api/validation")
	if err != nil {
		fmt.Fprintln(os.Stderr, err)
		os.Exit(1)
	}
	if packages.PrintErrors(pkgs) > 0 {
		os.Exit(1)
	}
	byName := map[string]*packages.Package{}
	for _, p := range pkgs {
		byName[p.PkgPath] = p
	}
	const mod = "k8s.io/pod-security-admission/"
	polPkg := byName[mod+"policy"]
	prog, spkgs := ssautil.AllPackages(pkgs, ssa.InstantiateGenerics)
	prog.Build()
	ssaBy := map[string]*ssa.Package{}
	for _, p := range spkgs {
		if p != nil {
			ssaBy[p.Pkg.Path()] = p
		}
	}

	// ---- F1
	metaBody, revs := metaOf(dump.Default)
	var expIDs []string
	for _, c := range dump.Experimental {
		expIDs = append(expIDs, c.ID)
	}
	writeIfChanged(filepath.Join(*out, "Meta.lean"), `import Psa.Registry
/-! GENERATED by /verif/go/factx from /repo — do not edit. Registration metadata of policy.DefaultChecks(). -/
namespace PSA.Generated
open PSA

/-- (id, level, [(major, minor, overrides)]) in registration order -/
def metaChecks : List (Str × CLevel × List (Nat × Nat × List Str)) :=
  [
`+metaBody+`  ]

/-- policy.ExperimentalChecks(): ids -/
def experimentalIds : List Str := `+leanStrs(expIDs)+`

end PSA.Generated
`)

	// ---- F2
	tb := dump.Tables
	need := func(k string) []string {
		v, ok := tb[k]
		if !ok {
			fail("F2: hook does not export %s", k)
		}
		return v
	}
	one := func(k string) string {
		v := need(k)
		if len(v) != 1 {
			fail("F2: %s is not a single value", k)
			return ""
		}
		return v[0]
	}
	ac := &astCtx{pkg: polPkg}
	seccompTypes, pfx := ac.predicate("validSeccomp")
	if len(pfx) != 0 {
		fail("F2: validSeccomp has prefixes")
	}
	seccompAnnValues, seccompAnnPrefixes := ac.predicate("validSeccompAnnotationValue")
	appArmorTypes, pfx2 := ac.predicate("allowedProfileType")
	if len(pfx2) != 0 {
		fail("F2: allowedProfileType has prefixes")
	}
	appArmorAnnValues, appArmorAnnPrefixes := ac.predicate("allowedAnnotationValue")
	if len(seccompAnnPrefixes) != 1 || len(appArmorAnnPrefixes) != 1 {
		fail("F2: annotation predicates do not have exactly one prefix")
		seccompAnnPrefixes = append(seccompAnnPrefixes, "")
		appArmorAnnPrefixes = append(appArmorAnnPrefixes, "")
	}
	volAllowed, volBad := ac.volumeSwitches()
	kinds := make([]string, len(volAllowed))
	for i, v := range volAllowed {
		kinds[i] = "." + v
	}
	var badPairs []string
	badDefault := "unknown"
	for _, p := range volBad {
		if p[0] == "" {
			badDefault = p[1]
		} else {
			badPairs = append(badPairs, fmt.Sprintf("(.%s, %s)", p[0], leanStr(p[1])))
		}
	}
	// the windows OS name and the default proc mount are corev1 constants the checks compare with
	tables := `import Psa.Checks
/-! GENERATED by /verif/go/factx from /repo — do not edit. Allow-lists of package policy. -/
namespace PSA.Generated
open PSA

def tables : Tables where
  capsBaseline := ` + leanStrs(need("capsBaseline")) + `
  capsRestrictedAdd := ` + leanStrs(need("capsRestrictedAdd")) + `
  capAll := ` + leanStr(one("capAll")) + `
  seccompTypes := ` + leanStrs(seccompTypes) + `
  seccompAnnValues := ` + leanStrs(seccompAnnValues) + `
  seccompAnnPrefix := ` + leanStr(seccompAnnPrefixes[0]) + `
  appArmorTypes := ` + leanStrs(appArmorTypes) + `
  appArmorAnnValues := ` + leanStrs(appArmorAnnValues) + `
  appArmorAnnPrefix := ` + leanStr(appArmorAnnPrefixes[0]) + `
  procMountDefault := ` + leanStr(dump.Consts["procMountDefault"]) + `
  volAllowed := [` + strings.Join(kinds, ", ") + `]
  sysctls0 := ` + leanStrs(need("sysctls0")) + `
  sysctls27 := ` + leanStrs(need("sysctls27")) + `
  sysctls29 := ` + leanStrs(need("sysctls29")) + `
  sysctls32 := ` + leanStrs(need("sysctls32")) + `
  selinux0 := ` + leanStrs(need("selinux0")) + `
  selinux31 := ` + leanStrs(need("selinux31")) + `
  windows := ` + leanStr(dump.Consts["windows"]) + `

/-- the nested switch of restrictedVolumes_1_0, in source order, and its default -/
def volBadKinds : List (VolKind × Str) := [` + strings.Join(badPairs, ", ") + `]
def volBadDefault : Str := ` + leanStr(badDefault) + `

def seccompPodAnnKey : Str := ` + leanStr(one("seccompPodAnnKey")) + `
def seccompContainerAnnPrefix : Str := ` + leanStr(one("seccompContainerAnnPrefix")) + `
def appArmorAnnKeyPrefix : Str := ` + leanStr(dump.Consts["appArmorAnnKeyPrefix"]) + `

end PSA.Generated
`
	writeIfChanged(filepath.Join(*out, "Tables.lean"), tables)

	// ---- F4 / F5
	polSSA := ssaBy[mod+"policy"]
	globalInitLiterals = func(name string) []string {
		var out []string
		for _, f := range polPkg.Syntax {
			for _, d := range f.Decls {
				gd, ok := d.(*ast.GenDecl)
				if !ok {
					continue
				}
				for _, sp := range gd.Specs {
					vs, ok := sp.(*ast.ValueSpec)
					if !ok {
						continue
					}
					for i, n := range vs.Names {
						if n.Name != name || i >= len(vs.Values) {
							continue
						}
						ast.Inspect(vs.Values[i], func(nd ast.Node) bool {
							if e, ok := nd.(ast.Expr); ok {
								if tv, ok := polPkg.TypesInfo.Types[e]; ok && tv.Value != nil && tv.Value.Kind() == constant.String {
									if v := constant.StringVal(tv.Value); len(v) < 80 {
										out = append(out, v)
									}
								}
							}
							return true
						})
					}
				}
			}
		}
		return out
	}
	var readLines, writeLines []string
	var extra []revExtra
	for _, r := range revs {
		fn := polSSA.Func(r.fn)
		if fn == nil {
			fail("F4: no SSA function %s for %s@%d", r.fn, r.id, r.minor)
			continue
		}
		readLines = append(readLines, fmt.Sprintf("    ((%s, %d), %s)", leanStr(r.id), r.minor, leanStrs(readSet(fn))))
		extra = append(extra, revExtra{ID: r.id, Minor: r.minor, Reads: readSet(fn), Literals: literals(fn)})
		for _, w := range podWrites(fn) {
			writeLines = append(writeLines, "    "+leanStr(fmt.Sprintf("%s@%d %s", r.id, r.minor, w)))
		}
	}

	// ---- F6 / F8
	var respStores, globalStores []string
	freshMod = strings.TrimSuffix(mod, "/")
	for _, sp := range ssaBy {
		if strings.HasPrefix(sp.Pkg.Path(), freshMod) {
			freshFns = append(freshFns, allFunctions(prog, sp)...)
		}
	}
	for _, path := range []string{mod + "admission", mod + "cmd/webhook/server", mod + "api", mod + "policy", mod + "metrics"} {
		p := ssaBy[path]
		if p == nil {
			fail("package %s not loaded", path)
			continue
		}
		short := path[len(mod):]
		for _, f := range allFunctions(prog, p) {
			for _, b := range f.Blocks {
				for _, ins := range b.Instrs {
					st, ok := ins.(*ssa.Store)
					if !ok {
						continue
					}
					if fa, ok := st.Addr.(*ssa.FieldAddr); ok {
						if pt, ok := fa.X.Type().Underlying().(*types.Pointer); ok && strings.HasSuffix(pt.Elem().String(), "admission/v1.AdmissionResponse") {
							fld := pt.Elem().Underlying().(*types.Struct).Field(fa.Field).Name()
							o := origin(fa.X, 0)
							if !strings.HasPrefix(o, "shared:") && !strings.HasPrefix(o, "global:") && isFresh(fa.X) {
								o = "fresh:alloc" // whatever route the pointer took (constructors, helpers, phis), it was allocated for this request
							}
							respStores = append(respStores, fmt.Sprintf("    (%s, %s, %s, %s)", leanStr(short), leanStr(f.Name()), leanStr(fld), leanStr(o)))
						}
					}
					if g, ok := st.Addr.(*ssa.Global); ok && !strings.HasPrefix(f.Name(), "init") {
						globalStores = append(globalStores, fmt.Sprintf("    (%s, %s, %s)", leanStr(short), leanStr(f.Name()), leanStr(g.Name())))
					}
				}
			}
		}
	}
	sort.Strings(respStores)
	sort.Strings(globalStores)

	// ---- F9: writes to state that outlives a request: through a method receiver, or into a package-level map / struct /
	// sync primitive (F8 only sees a direct store to the variable itself)
	var stateWrites []string
	var modFns []*ssa.Function
	for _, sp := range ssaBy {
		if strings.HasPrefix(sp.Pkg.Path(), strings.TrimSuffix(mod, "/")) {
			modFns = append(modFns, allFunctions(prog, sp)...)
		}
	}
	for _, path := range []string{mod + "admission", mod + "cmd/webhook/server", mod + "api", mod + "policy", mod + "admission/api", mod + "admission/api/load", mod + "admission/api/validation"} {
		p := ssaBy[path]
		if p == nil {
			fail("F9: package %s not loaded", path)
			continue
		}
		short := path[len(mod):]
		for _, f := range allFunctions(prog, p) {
			recv := ""
			root := f
			for root.Parent() != nil {
				root = root.Parent()
			}
			if root.Signature.Recv() != nil && len(root.Params) > 0 {
				if _, isPtr := root.Params[0].Type().Underlying().(*types.Pointer); isPtr {
					recv = root.Params[0].Name()
				}
			}
			longLived := func(v ssa.Value) (string, bool) {
				o := origin(v, 0)
				if strings.Contains(o, "global:") || strings.Contains(o, "shared:") {
					return o, true
				}
				if recv != "" && (strings.Contains(o, "param:"+recv+")") || strings.HasSuffix(o, "param:"+recv) || strings.Contains(o, "freevar:"+recv+")") || strings.HasSuffix(o, "freevar:"+recv)) {
					if o == "param:"+recv && f == root && receiverStaysLocal(prog, root, modFns) {
						// the receiver's own memory, and the receiver is always a variable of one activation of a caller
						return o, false
					}
					return o, true
				}
				return o, false
			}
			add := func(what string) {
				if recv != "" {
					what = strings.ReplaceAll(what, "param:"+recv, "receiver")
				}
				// a write in an unexported helper is reported under the exported functions it is reachable from: what matters is
				// on which entry points state is written, not how the code is cut into helpers
				for _, e := range entryPoints(root, modFns) {
					es := e.String()
					stateWrites = append(stateWrites, fmt.Sprintf("    (%s, %s, %s)", leanStr(short), leanStr(es[strings.LastIndex(es, "/")+1:]), leanStr(what)))
				}
			}
			isInit := strings.HasPrefix(root.Name(), "init")
			for _, b := range f.Blocks {
				for _, ins := range b.Instrs {
					switch x := ins.(type) {
					case *ssa.Store:
						if _, direct := x.Addr.(*ssa.Global); direct {
							continue // F8
						}
						if _, isAlloc := x.Addr.(*ssa.Alloc); isAlloc {
							continue
						}
						if o, ok := longLived(x.Addr); ok && !isInit {
							add("store through " + o)
						}
					case *ssa.MapUpdate:
						if o, ok := longLived(x.Map); ok && !isInit {
							add("map update through " + o)
						}
					case ssa.CallInstruction:
						c := x.Common()
						callee := c.StaticCallee()
						if callee == nil || callee.Pkg == nil || len(c.Args) == 0 {
							continue
						}
						cp := callee.Pkg.Pkg.Path()
						if cp != "sync" && cp != "sync/atomic" {
							continue
						}
						if n := callee.Name(); n == "Load" || n == "RLock" || n == "RUnlock" {
							continue // reads
						}
						if o, ok := longLived(c.Args[0]); ok && !isInit {
							add("call " + callee.String()[strings.LastIndex(callee.String(), "/")+1:] + " on " + o)
						}
					}
				}
			}
		}
	}
	sort.Strings(stateWrites)
	stateWrites = dedup(stateWrites)

	// ---- F7
	constInt := func(pkg, name string) string {
		p := byName[mod+pkg]
		if p == nil {
			fail("F7: package %s", pkg)
			return "0"
		}
		obj := p.Types.Scope().Lookup(name)
		c, ok := obj.(*types.Const)
		if !ok {
			fail("F7: constant %s.%s not found", pkg, name)
			return "0"
		}
		if v, ok := constant.Int64Val(constant.ToInt(c.Val())); ok {
			return fmt.Sprint(v)
		}
		fail("F7: constant %s.%s not an integer", pkg, name)
		return "0"
	}
	// the two admission tables are read off the running code by the harness (sorted; see dump.go), not off a declaration's shape
	dumpList := func(name string, l []string) []string {
		if len(l) == 0 {
			fail("F7: the harness dump has no %s", name)
		}
		return l
	}
	facts := `import Psa.Str
/-! GENERATED by /verif/go/factx from /repo — do not edit. Structural facts about the code. -/
namespace PSA.Generated
open PSA

/-- F4: per registered revision (check id, minimum minor): the k8s API struct fields its function (with the closures and
    the package-local functions it calls) reads -/
def readSets : List ((Str × Nat) × List Str) :=
  [
` + strings.Join(readLines, ",\n") + `
  ]

/-- F5: writes through values reached from the pod parameters, per revision -/
def podWrites : List Str :=
  [
` + strings.Join(writeLines, ",\n") + `
  ]

/-- F6: (package, function, field, origin of the pointer) for every store to a field of *AdmissionResponse -/
def responseStores : List (Str × Str × Str × Str) :=
  [
` + strings.Join(respStores, ",\n") + `
  ]

/-- F8: (package, function, variable) for every store to a package-level variable outside init -/
def globalStores : List (Str × Str × Str) :=
  [
` + strings.Join(globalStores, ",\n") + `
  ]

/-- F9: (package, function, what) for every write, outside init, to state that outlives a request: a store or map update
    through a pointer method receiver or through a package-level variable, and every sync / sync/atomic call on such state -/
def stateWrites : List (Str × Str × Str) :=
  [
` + strings.Join(stateWrites, ",\n") + `
  ]

/-- F7: constants and small tables -/
def namespaceMaxPodsToCheck : Nat := ` + constInt("admission", "defaultNamespaceMaxPodsToCheck") + `
def namespacePodCheckTimeoutNs : Nat := ` + constInt("admission", "defaultNamespacePodCheckTimeout") + `
def maxRequestSize : Nat := ` + constInt("cmd/webhook/server", "maxRequestSize") + `
def ignoredPodSubresources : List Str := ` + leanStrs(dumpList("ignoredPodSubresources", dump.IgnoredPodSubresources)) + `
def podSpecResources : List Str := ` + leanStrs(dumpList("podSpecResources", dump.PodSpecResources)) + `

end PSA.Generated
`
	writeIfChanged(filepath.Join(*out, "Facts.lean"), facts)

	if b, err := json.MarshalIndent(extra, "", " "); err == nil {
		os.WriteFile(filepath.Join(filepath.Dir(*dumpFile), "factx_extra.json"), b, 0o644)
	}
	if len(failures) > 0 {
		soft := true
		for _, f := range failures {
			fmt.Fprintln(os.Stderr, "factx:", f)
			if !strings.HasPrefix(f, "F7:") {
				soft = false
			}
		}
		if !soft {
			os.Exit(1)
		}
		// only constants / small tables (F7) could not be read: they were emitted as 0 / the empty list, which no obligation over
		// them accepts, so the properties that rest on them (and only those) see a broken obligation; everything else is fresh
		for _, w := range pending {
			writeNow(w[0], w[1])
		}
		os.Exit(3)
	}
	for _, w := range pending {
		writeNow(w[0], w[1])
	}
	fmt.Printf("factx: %d revisions, %d response stores, %d global stores, %d pod writes\n", len(revs), len(respStores), len(globalStores), len(writeLines))
}

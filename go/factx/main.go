// factx: regenerates /verif/lean/Psa/Generated/*.lean from /repo's working tree.
//   F1 registration metadata (reflection on policy.DefaultChecks / ExperimentalChecks)
//   F2 allow-lists (run-time values through the verif hook; predicate functions and the volume switch through go/ast)
//   F4 per-revision field read-sets, F5 stores through the pod parameters (go/ssa)
//   F6 stores to AdmissionResponse fields with the origin of the pointer, F8 stores to package-level variables (go/ssa)
//   F7 constants and small tables (go/types)
// An unrecognised construct is a hard failure (exit 1): a fact is never silently skipped.
package main

import (
	"flag"
	"fmt"
	"go/ast"
	"go/constant"
	"go/token"
	"go/types"
	"os"
	"path/filepath"
	"sort"
	"strings"

	"encoding/json"

	"golang.org/x/tools/go/packages"
	"golang.org/x/tools/go/ssa"
	"golang.org/x/tools/go/ssa/ssautil"
)

// Dump is what the harness (which links the repository with -tags verif) wrote with -prop FACTS-DUMP.
type DumpRev struct {
	Major, Minor int
	Latest       bool
	Overrides    []string
	Func         string
}
type DumpCheck struct {
	ID, Level string
	Revs      []DumpRev
}
type Dump struct {
	Default         []DumpCheck         `json:"default"`
	Experimental    []DumpCheck         `json:"experimental"`
	Tables          map[string][]string `json:"tables"`
	Consts          map[string]string   `json:"consts"`
	VolumeJSONNames map[string]string   `json:"volumeJSONNames"`
}

var dump Dump

var failures []string

func fail(format string, a ...any) { failures = append(failures, fmt.Sprintf(format, a...)) }

func leanStr(s string) string {
	var b strings.Builder
	b.WriteString(`b!"`)
	for _, c := range []byte(s) {
		switch {
		case c == '"':
			b.WriteString(`\"`)
		case c == '\\':
			b.WriteString(`\\`)
		case c < 32 || c == 127:
			fmt.Fprintf(&b, `\x%02x`, c)
		default:
			b.WriteByte(c)
		}
	}
	b.WriteString(`"`)
	return b.String()
}

func leanStrs(l []string) string {
	parts := make([]string, len(l))
	for i, s := range l {
		parts[i] = leanStr(s)
	}
	return "[" + strings.Join(parts, ", ") + "]"
}

func writeIfChanged(path, content string) {
	old, err := os.ReadFile(path)
	if err == nil && string(old) == content {
		return
	}
	os.MkdirAll(filepath.Dir(path), 0o755)
	if err := os.WriteFile(path, []byte(content), 0o644); err != nil {
		panic(err)
	}
}

// ---------------------------------------------------------------- F1

type revMeta struct {
	id    string
	level string
	major, minor int
	overrides []string
	fn    string // Go function name of CheckPod
}

func metaOf(checks []DumpCheck) (string, []revMeta) {
	var revs []revMeta
	var b strings.Builder
	for i, c := range checks {
		lvl := ".other"
		switch c.Level {
		case "privileged":
			lvl = ".privileged"
		case "baseline":
			lvl = ".baseline"
		case "restricted":
			lvl = ".restricted"
		}
		var rs []string
		for _, v := range c.Revs {
			rs = append(rs, fmt.Sprintf("(%d, %d, %s)", v.Major, v.Minor, leanStrs(v.Overrides)))
			revs = append(revs, revMeta{c.ID, c.Level, v.Major, v.Minor, v.Overrides, v.Func})
			if v.Latest {
				fail("check %s registers a revision at 'latest'", c.ID)
			}
		}
		sep := ","
		if i == len(checks)-1 {
			sep = ""
		}
		fmt.Fprintf(&b, "    (%s, %s, [%s])%s\n", leanStr(c.ID), lvl, strings.Join(rs, ", "), sep)
	}
	return b.String(), revs
}

// ---------------------------------------------------------------- F2 (AST part)

type astCtx struct {
	pkg *packages.Package
}

func (a *astCtx) funcDecl(name string) *ast.FuncDecl {
	for _, f := range a.pkg.Syntax {
		for _, d := range f.Decls {
			if fd, ok := d.(*ast.FuncDecl); ok && fd.Recv == nil && fd.Name.Name == name {
				return fd
			}
		}
	}
	return nil
}

func (a *astCtx) constString(e ast.Expr) (string, bool) {
	tv, ok := a.pkg.TypesInfo.Types[e]
	if !ok || tv.Value == nil || tv.Value.Kind() != constant.String {
		return "", false
	}
	return constant.StringVal(tv.Value), true
}

// predicate: `return a || b || ...` with disjuncts  x == C | C == x | len(x) == 0 | strings.HasPrefix(x, C);
// or a single `switch x { case C...: return true; default: return false }`.
func (a *astCtx) predicate(name string) (exact []string, prefixes []string) {
	fd := a.funcDecl(name)
	if fd == nil || fd.Body == nil || len(fd.Body.List) != 1 {
		fail("F2: function %s not found or not a single statement", name)
		return
	}
	var disj func(e ast.Expr)
	disj = func(e ast.Expr) {
		switch x := e.(type) {
		case *ast.ParenExpr:
			disj(x.X)
		case *ast.BinaryExpr:
			switch x.Op {
			case token.LOR:
				disj(x.X)
				disj(x.Y)
			case token.EQL:
				if s, ok := a.constString(x.Y); ok {
					exact = append(exact, s)
				} else if s, ok := a.constString(x.X); ok {
					exact = append(exact, s)
				} else if call, ok := x.X.(*ast.CallExpr); ok && isIdent(call.Fun, "len") {
					if tv := a.pkg.TypesInfo.Types[x.Y]; tv.Value != nil && tv.Value.String() == "0" {
						exact = append(exact, "")
					} else {
						fail("F2: %s: unrecognised len comparison", name)
					}
				} else {
					fail("F2: %s: unrecognised equality", name)
				}
			default:
				fail("F2: %s: unrecognised operator %s", name, x.Op)
			}
		case *ast.CallExpr:
			if sel, ok := x.Fun.(*ast.SelectorExpr); ok && sel.Sel.Name == "HasPrefix" && isIdent(sel.X, "strings") && len(x.Args) == 2 {
				if s, ok := a.constString(x.Args[1]); ok {
					prefixes = append(prefixes, s)
					return
				}
			}
			fail("F2: %s: unrecognised call", name)
		default:
			fail("F2: %s: unrecognised expression %T", name, e)
		}
	}
	switch st := fd.Body.List[0].(type) {
	case *ast.ReturnStmt:
		if len(st.Results) != 1 {
			fail("F2: %s: unexpected return", name)
			return
		}
		disj(st.Results[0])
	case *ast.SwitchStmt:
		sawDefault := false
		for _, cl := range st.Body.List {
			cc := cl.(*ast.CaseClause)
			ret, ok := singleReturnBool(cc.Body)
			if !ok {
				fail("F2: %s: case body is not `return true/false`", name)
				continue
			}
			if cc.List == nil {
				sawDefault = true
				if ret {
					fail("F2: %s: default returns true", name)
				}
				continue
			}
			if !ret {
				continue
			}
			for _, e := range cc.List {
				if s, ok := a.constString(e); ok {
					exact = append(exact, s)
				} else {
					fail("F2: %s: non-constant case", name)
				}
			}
		}
		if !sawDefault {
			fail("F2: %s: switch without default", name)
		}
	default:
		fail("F2: %s: unrecognised body %T", name, st)
	}
	return
}

func isIdent(e ast.Expr, name string) bool {
	id, ok := e.(*ast.Ident)
	return ok && id.Name == name
}

func singleReturnBool(body []ast.Stmt) (bool, bool) {
	if len(body) != 1 {
		return false, false
	}
	r, ok := body[0].(*ast.ReturnStmt)
	if !ok || len(r.Results) != 1 {
		return false, false
	}
	id, ok := r.Results[0].(*ast.Ident)
	if !ok || (id.Name != "true" && id.Name != "false") {
		return false, false
	}
	return id.Name == "true", true
}

// volume switches of restrictedVolumes_1_0: the allowed source fields of the first `switch {case volume.X != nil, ...: continue`
// and the ordered (field, name) pairs of the nested switch.
func (a *astCtx) volumeSwitches() (allowed []string, bad [][2]string) {
	fd := a.funcDecl("restrictedVolumes_1_0")
	if fd == nil {
		fail("F2: restrictedVolumes_1_0 not found")
		return
	}
	jsonName := dump.VolumeJSONNames
	fieldOf := func(e ast.Expr) (string, bool) {
		be, ok := e.(*ast.BinaryExpr)
		if !ok || be.Op != token.NEQ || !isIdent(be.Y, "nil") {
			return "", false
		}
		sel, ok := be.X.(*ast.SelectorExpr)
		if !ok {
			return "", false
		}
		j, ok := jsonName[sel.Sel.Name]
		return j, ok
	}
	var outer *ast.SwitchStmt
	ast.Inspect(fd.Body, func(n ast.Node) bool {
		if s, ok := n.(*ast.SwitchStmt); ok && outer == nil && s.Tag == nil {
			outer = s
			return false
		}
		return true
	})
	if outer == nil {
		fail("F2: restrictedVolumes_1_0: no switch")
		return
	}
	for _, cl := range outer.Body.List {
		cc := cl.(*ast.CaseClause)
		if cc.List != nil {
			if len(cc.Body) != 1 {
				fail("F2: restrictedVolumes_1_0: allowed case does not just continue")
			} else if br, ok := cc.Body[0].(*ast.BranchStmt); !ok || br.Tok != token.CONTINUE {
				fail("F2: restrictedVolumes_1_0: allowed case does not just continue")
			}
			for _, e := range cc.List {
				if f, ok := fieldOf(e); ok {
					allowed = append(allowed, f)
				} else {
					fail("F2: restrictedVolumes_1_0: unrecognised allowed case")
				}
			}
			continue
		}
		// default: find the nested switch
		var inner *ast.SwitchStmt
		for _, st := range cc.Body {
			if s, ok := st.(*ast.SwitchStmt); ok {
				inner = s
			}
		}
		if inner == nil {
			fail("F2: restrictedVolumes_1_0: no nested switch")
			return
		}
		for _, icl := range inner.Body.List {
			icc := icl.(*ast.CaseClause)
			lit := ""
			if len(icc.Body) == 1 {
				if es, ok := icc.Body[0].(*ast.ExprStmt); ok {
					if call, ok := es.X.(*ast.CallExpr); ok && len(call.Args) == 1 {
						lit, _ = a.constString(call.Args[0])
					}
				}
			}
			if lit == "" {
				fail("F2: restrictedVolumes_1_0: nested case does not insert a literal")
				continue
			}
			if icc.List == nil {
				bad = append(bad, [2]string{"", lit})
				continue
			}
			for _, e := range icc.List {
				if f, ok := fieldOf(e); ok {
					bad = append(bad, [2]string{f, lit})
				} else {
					fail("F2: restrictedVolumes_1_0: unrecognised nested case")
				}
			}
		}
	}
	return
}

// ---------------------------------------------------------------- SSA helpers

func origin(v ssa.Value, depth int) string {
	if depth > 12 {
		return "unknown:deep"
	}
	switch x := v.(type) {
	case *ssa.Alloc:
		return "fresh:alloc"
	case *ssa.Call:
		if f := x.Call.StaticCallee(); f != nil {
			return "call:" + f.Name()
		}
		if x.Call.IsInvoke() {
			return "invoke:" + x.Call.Method.Name()
		}
		return "call:dynamic"
	case *ssa.Global:
		return "global:" + x.Name()
	case *ssa.UnOp:
		if x.Op == token.MUL {
			if g, ok := x.X.(*ssa.Global); ok {
				return "shared:" + g.Name()
			}
			return "load(" + origin(x.X, depth+1) + ")"
		}
	case *ssa.Phi:
		seen := map[string]bool{}
		var parts []string
		for _, e := range x.Edges {
			o := origin(e, depth+1)
			if !seen[o] {
				seen[o] = true
				parts = append(parts, o)
			}
		}
		sort.Strings(parts)
		return "phi{" + strings.Join(parts, ",") + "}"
	case *ssa.Parameter:
		return "param:" + x.Name()
	case *ssa.FieldAddr:
		return origin(x.X, depth+1)
	case *ssa.IndexAddr:
		return origin(x.X, depth+1)
	case *ssa.FreeVar:
		return "freevar:" + x.Name()
	case *ssa.MakeInterface:
		return origin(x.X, depth+1)
	case *ssa.ChangeType:
		return origin(x.X, depth+1)
	case *ssa.Extract:
		return "extract(" + origin(x.Tuple, depth+1) + ")"
	}
	return fmt.Sprintf("unknown:%T", v)
}

// reach: f, its anonymous functions and its static callees inside the same package
func reach(f *ssa.Function, seen map[*ssa.Function]bool) {
	if f == nil || seen[f] || f.Blocks == nil {
		return
	}
	seen[f] = true
	for _, af := range f.AnonFuncs {
		reach(af, seen)
	}
	for _, b := range f.Blocks {
		for _, ins := range b.Instrs {
			if c, ok := ins.(ssa.CallInstruction); ok {
				if callee := c.Common().StaticCallee(); callee != nil && callee.Pkg == f.Pkg {
					reach(callee, seen)
				}
			}
		}
	}
}

func structField(t types.Type, i int) (string, bool) {
	if p, ok := t.Underlying().(*types.Pointer); ok {
		t = p.Elem()
	}
	named, _ := t.(*types.Named)
	st, ok := t.Underlying().(*types.Struct)
	if !ok || named == nil {
		return "", false
	}
	pkg := ""
	if named.Obj().Pkg() != nil {
		pkg = named.Obj().Pkg().Path()
	}
	if !strings.HasPrefix(pkg, "k8s.io/api/") && !strings.HasPrefix(pkg, "k8s.io/apimachinery/pkg/apis/meta") {
		return "", false
	}
	return named.Obj().Name() + "." + st.Field(i).Name(), true
}

func readSet(f *ssa.Function) []string {
	seen := map[*ssa.Function]bool{}
	reach(f, seen)
	set := map[string]bool{}
	for fn := range seen {
		for _, b := range fn.Blocks {
			for _, ins := range b.Instrs {
				switch x := ins.(type) {
				case *ssa.FieldAddr:
					if s, ok := structField(x.X.Type(), x.Field); ok {
						set[s] = true
					}
				case *ssa.Field:
					if s, ok := structField(x.X.Type(), x.Field); ok {
						set[s] = true
					}
				}
			}
		}
	}
	out := []string{}
	for k := range set {
		out = append(out, k)
	}
	sort.Strings(out)
	return out
}

// writes through values derived from the pod parameters (or captured copies of them)
func podWrites(f *ssa.Function) []string {
	seen := map[*ssa.Function]bool{}
	reach(f, seen)
	var out []string
	fromPod := func(v ssa.Value) bool {
		o := origin(v, 0)
		return strings.Contains(o, "param:podMetadata") || strings.Contains(o, "param:podSpec") || strings.Contains(o, "freevar:podMetadata") ||
			strings.Contains(o, "freevar:podSpec") || strings.Contains(o, "param:container") || strings.Contains(o, "param:c)") || o == "param:c" || strings.Contains(o, "param:opts")
	}
	for fn := range seen {
		for _, b := range fn.Blocks {
			for _, ins := range b.Instrs {
				switch x := ins.(type) {
				case *ssa.Store:
					if _, isAlloc := x.Addr.(*ssa.Alloc); isAlloc {
						continue
					}
					if fromPod(x.Addr) {
						out = append(out, fmt.Sprintf("%s: store through %s", fn.Name(), origin(x.Addr, 0)))
					}
				case *ssa.MapUpdate:
					if fromPod(x.Map) {
						out = append(out, fmt.Sprintf("%s: map update through %s", fn.Name(), origin(x.Map, 0)))
					}
				case *ssa.Call:
					if callee := x.Call.StaticCallee(); callee != nil && callee.Pkg != nil && callee.Pkg.Pkg.Path() == "sort" {
						for _, a := range x.Call.Args {
							if fromPod(a) {
								out = append(out, fmt.Sprintf("%s: sort.%s of a value reached from the pod", fn.Name(), callee.Name()))
							}
						}
					}
				}
			}
		}
	}
	sort.Strings(out)
	return out
}

func dedup(l []string) []string {
	var out []string
	for i, x := range l {
		if i == 0 || l[i-1] != x {
			out = append(out, x)
		}
	}
	return out
}

func allFunctions(prog *ssa.Program, p *ssa.Package) []*ssa.Function {
	var fns []*ssa.Function
	seen := map[*ssa.Function]bool{}
	var add func(f *ssa.Function)
	add = func(f *ssa.Function) {
		if f == nil || seen[f] {
			return
		}
		seen[f] = true
		fns = append(fns, f)
		for _, af := range f.AnonFuncs {
			add(af)
		}
	}
	for _, m := range p.Members {
		if f, ok := m.(*ssa.Function); ok {
			add(f)
		}
		if tp, ok := m.(*ssa.Type); ok {
			for _, t := range []types.Type{tp.Type(), types.NewPointer(tp.Type())} {
				ms := prog.MethodSets.MethodSet(t)
				for i := 0; i < ms.Len(); i++ {
					if f := prog.MethodValue(ms.At(i)); f != nil && f.Pkg == p {
						add(f)
					}
				}
			}
		}
	}
	sort.Slice(fns, func(i, j int) bool { return fns[i].String() < fns[j].String() })
	return fns
}

// ---------------------------------------------------------------- main

func main() {
	repo := flag.String("repo", "/repo", "repository")
	out := flag.String("out", "/verif/lean/Psa/Generated", "output directory")
	dumpFile := flag.String("dump", "/verif/work/facts_dump.json", "run-time facts written by the harness")
	flag.Parse()
	if b, err := os.ReadFile(*dumpFile); err != nil {
		fmt.Fprintln(os.Stderr, err)
		os.Exit(1)
	} else if err := json.Unmarshal(b, &dump); err != nil {
		fmt.Fprintln(os.Stderr, err)
		os.Exit(1)
	}

	cfg := &packages.Config{Mode: packages.LoadAllSyntax, Dir: *repo, BuildFlags: []string{"-tags=verif"}, Env: os.Environ()}
	pkgs, err := packages.Load(cfg, "./admission", "./cmd/webhook/server", "./policy", "./api", "./metrics")
	if err != nil {
		fmt.Fprintln(os.Stderr, err)
		os.Exit(1)
	}
	if packages.PrintErrors(pkgs) > 0 {
		os.Exit(1)
	}
	byName := map[string]*packages.Package{}
	for _, p := range pkgs {
		byName[p.PkgPath] = p
	}
	const mod = "k8s.io/pod-security-admission/"
	polPkg := byName[mod+"policy"]
	prog, spkgs := ssautil.AllPackages(pkgs, ssa.InstantiateGenerics)
	prog.Build()
	ssaBy := map[string]*ssa.Package{}
	for _, p := range spkgs {
		if p != nil {
			ssaBy[p.Pkg.Path()] = p
		}
	}

	// ---- F1
	metaBody, revs := metaOf(dump.Default)
	var expIDs []string
	for _, c := range dump.Experimental {
		expIDs = append(expIDs, c.ID)
	}
	writeIfChanged(filepath.Join(*out, "Meta.lean"), `import Psa.Registry
/-! GENERATED by /verif/go/factx from /repo — do not edit. Registration metadata of policy.DefaultChecks(). -/
namespace PSA.Generated
open PSA

/-- (id, level, [(major, minor, overrides)]) in registration order -/
def metaChecks : List (Str × CLevel × List (Nat × Nat × List Str)) :=
  [
`+metaBody+`  ]

/-- policy.ExperimentalChecks(): ids -/
def experimentalIds : List Str := `+leanStrs(expIDs)+`

end PSA.Generated
`)

	// ---- F2
	tb := dump.Tables
	need := func(k string) []string {
		v, ok := tb[k]
		if !ok {
			fail("F2: hook does not export %s", k)
		}
		return v
	}
	one := func(k string) string {
		v := need(k)
		if len(v) != 1 {
			fail("F2: %s is not a single value", k)
			return ""
		}
		return v[0]
	}
	ac := &astCtx{pkg: polPkg}
	seccompTypes, pfx := ac.predicate("validSeccomp")
	if len(pfx) != 0 {
		fail("F2: validSeccomp has prefixes")
	}
	seccompAnnValues, seccompAnnPrefixes := ac.predicate("validSeccompAnnotationValue")
	appArmorTypes, pfx2 := ac.predicate("allowedProfileType")
	if len(pfx2) != 0 {
		fail("F2: allowedProfileType has prefixes")
	}
	appArmorAnnValues, appArmorAnnPrefixes := ac.predicate("allowedAnnotationValue")
	if len(seccompAnnPrefixes) != 1 || len(appArmorAnnPrefixes) != 1 {
		fail("F2: annotation predicates do not have exactly one prefix")
		seccompAnnPrefixes = append(seccompAnnPrefixes, "")
		appArmorAnnPrefixes = append(appArmorAnnPrefixes, "")
	}
	volAllowed, volBad := ac.volumeSwitches()
	kinds := make([]string, len(volAllowed))
	for i, v := range volAllowed {
		kinds[i] = "." + v
	}
	var badPairs []string
	badDefault := "unknown"
	for _, p := range volBad {
		if p[0] == "" {
			badDefault = p[1]
		} else {
			badPairs = append(badPairs, fmt.Sprintf("(.%s, %s)", p[0], leanStr(p[1])))
		}
	}
	// the windows OS name and the default proc mount are corev1 constants the checks compare with
	tables := `import Psa.Checks
/-! GENERATED by /verif/go/factx from /repo — do not edit. Allow-lists of package policy. -/
namespace PSA.Generated
open PSA

def tables : Tables where
  capsBaseline := ` + leanStrs(need("capsBaseline")) + `
  capsRestrictedAdd := ` + leanStrs(need("capsRestrictedAdd")) + `
  capAll := ` + leanStr(one("capAll")) + `
  seccompTypes := ` + leanStrs(seccompTypes) + `
  seccompAnnValues := ` + leanStrs(seccompAnnValues) + `
  seccompAnnPrefix := ` + leanStr(seccompAnnPrefixes[0]) + `
  appArmorTypes := ` + leanStrs(appArmorTypes) + `
  appArmorAnnValues := ` + leanStrs(appArmorAnnValues) + `
  appArmorAnnPrefix := ` + leanStr(appArmorAnnPrefixes[0]) + `
  procMountDefault := ` + leanStr(dump.Consts["procMountDefault"]) + `
  volAllowed := [` + strings.Join(kinds, ", ") + `]
  sysctls0 := ` + leanStrs(need("sysctls0")) + `
  sysctls27 := ` + leanStrs(need("sysctls27")) + `
  sysctls29 := ` + leanStrs(need("sysctls29")) + `
  sysctls32 := ` + leanStrs(need("sysctls32")) + `
  selinux0 := ` + leanStrs(need("selinux0")) + `
  selinux31 := ` + leanStrs(need("selinux31")) + `
  windows := ` + leanStr(dump.Consts["windows"]) + `

/-- the nested switch of restrictedVolumes_1_0, in source order, and its default -/
def volBadKinds : List (VolKind × Str) := [` + strings.Join(badPairs, ", ") + `]
def volBadDefault : Str := ` + leanStr(badDefault) + `

def seccompPodAnnKey : Str := ` + leanStr(one("seccompPodAnnKey")) + `
def seccompContainerAnnPrefix : Str := ` + leanStr(one("seccompContainerAnnPrefix")) + `
def appArmorAnnKeyPrefix : Str := ` + leanStr(dump.Consts["appArmorAnnKeyPrefix"]) + `

end PSA.Generated
`
	writeIfChanged(filepath.Join(*out, "Tables.lean"), tables)

	// ---- F4 / F5
	polSSA := ssaBy[mod+"policy"]
	var readLines, writeLines []string
	for _, r := range revs {
		fn := polSSA.Func(r.fn)
		if fn == nil {
			fail("F4: no SSA function %s for %s@%d", r.fn, r.id, r.minor)
			continue
		}
		readLines = append(readLines, fmt.Sprintf("    ((%s, %d), %s)", leanStr(r.id), r.minor, leanStrs(readSet(fn))))
		for _, w := range podWrites(fn) {
			writeLines = append(writeLines, "    "+leanStr(fmt.Sprintf("%s@%d %s", r.id, r.minor, w)))
		}
	}

	// ---- F6 / F8
	var respStores, globalStores []string
	for _, path := range []string{mod + "admission", mod + "cmd/webhook/server", mod + "api", mod + "policy", mod + "metrics"} {
		p := ssaBy[path]
		if p == nil {
			fail("package %s not loaded", path)
			continue
		}
		short := path[len(mod):]
		for _, f := range allFunctions(prog, p) {
			for _, b := range f.Blocks {
				for _, ins := range b.Instrs {
					st, ok := ins.(*ssa.Store)
					if !ok {
						continue
					}
					if fa, ok := st.Addr.(*ssa.FieldAddr); ok {
						if pt, ok := fa.X.Type().Underlying().(*types.Pointer); ok && strings.HasSuffix(pt.Elem().String(), "admission/v1.AdmissionResponse") {
							fld := pt.Elem().Underlying().(*types.Struct).Field(fa.Field).Name()
							respStores = append(respStores, fmt.Sprintf("    (%s, %s, %s, %s)", leanStr(short), leanStr(f.Name()), leanStr(fld), leanStr(origin(fa.X, 0))))
						}
					}
					if g, ok := st.Addr.(*ssa.Global); ok && !strings.HasPrefix(f.Name(), "init") {
						globalStores = append(globalStores, fmt.Sprintf("    (%s, %s, %s)", leanStr(short), leanStr(f.Name()), leanStr(g.Name())))
					}
				}
			}
		}
	}
	sort.Strings(respStores)
	sort.Strings(globalStores)

	// ---- F9: writes to state that outlives a request: through a method receiver, or into a package-level map / struct /
	// sync primitive (F8 only sees a direct store to the variable itself)
	var stateWrites []string
	for _, path := range []string{mod + "admission", mod + "cmd/webhook/server", mod + "api", mod + "policy"} {
		p := ssaBy[path]
		if p == nil {
			continue
		}
		short := path[len(mod):]
		for _, f := range allFunctions(prog, p) {
			recv := ""
			root := f
			for root.Parent() != nil {
				root = root.Parent()
			}
			if root.Signature.Recv() != nil && len(root.Params) > 0 {
				if _, isPtr := root.Params[0].Type().Underlying().(*types.Pointer); isPtr {
					recv = root.Params[0].Name()
				}
			}
			longLived := func(v ssa.Value) (string, bool) {
				o := origin(v, 0)
				if strings.Contains(o, "global:") || strings.Contains(o, "shared:") {
					return o, true
				}
				if recv != "" && (strings.Contains(o, "param:"+recv+")") || strings.HasSuffix(o, "param:"+recv) || strings.Contains(o, "freevar:"+recv+")") || strings.HasSuffix(o, "freevar:"+recv)) {
					return o, true
				}
				return o, false
			}
			add := func(what string) {
				stateWrites = append(stateWrites, fmt.Sprintf("    (%s, %s, %s)", leanStr(short), leanStr(f.String()[strings.LastIndex(f.String(), "/")+1:]), leanStr(what)))
			}
			isInit := strings.HasPrefix(root.Name(), "init")
			for _, b := range f.Blocks {
				for _, ins := range b.Instrs {
					switch x := ins.(type) {
					case *ssa.Store:
						if _, direct := x.Addr.(*ssa.Global); direct {
							continue // F8
						}
						if _, isAlloc := x.Addr.(*ssa.Alloc); isAlloc {
							continue
						}
						if o, ok := longLived(x.Addr); ok && !isInit {
							add("store through " + o)
						}
					case *ssa.MapUpdate:
						if o, ok := longLived(x.Map); ok && !isInit {
							add("map update through " + o)
						}
					case ssa.CallInstruction:
						c := x.Common()
						callee := c.StaticCallee()
						if callee == nil || callee.Pkg == nil || len(c.Args) == 0 {
							continue
						}
						cp := callee.Pkg.Pkg.Path()
						if cp != "sync" && cp != "sync/atomic" {
							continue
						}
						if n := callee.Name(); n == "Load" || n == "RLock" || n == "RUnlock" {
							continue // reads
						}
						if o, ok := longLived(c.Args[0]); ok && !isInit {
							add("call " + callee.String()[strings.LastIndex(callee.String(), "/")+1:] + " on " + o)
						}
					}
				}
			}
		}
	}
	sort.Strings(stateWrites)
	stateWrites = dedup(stateWrites)

	// ---- F7
	constInt := func(pkg, name string) string {
		p := byName[mod+pkg]
		if p == nil {
			fail("F7: package %s", pkg)
			return "0"
		}
		obj := p.Types.Scope().Lookup(name)
		c, ok := obj.(*types.Const)
		if !ok {
			fail("F7: constant %s.%s not found", pkg, name)
			return "0"
		}
		if v, ok := constant.Int64Val(constant.ToInt(c.Val())); ok {
			return fmt.Sprint(v)
		}
		fail("F7: constant %s.%s not an integer", pkg, name)
		return "0"
	}
	mapKeys := func(pkg, name string) []string {
		p := byName[mod+pkg]
		var keys []string
		found := false
		for _, f := range p.Syntax {
			for _, d := range f.Decls {
				gd, ok := d.(*ast.GenDecl)
				if !ok {
					continue
				}
				for _, sp := range gd.Specs {
					vs, ok := sp.(*ast.ValueSpec)
					if !ok || len(vs.Names) != 1 || vs.Names[0].Name != name || len(vs.Values) != 1 {
						continue
					}
					cl, ok := vs.Values[0].(*ast.CompositeLit)
					if !ok {
						continue
					}
					found = true
					for _, el := range cl.Elts {
						kv := el.(*ast.KeyValueExpr)
						tv := p.TypesInfo.Types[kv.Key]
						if tv.Value != nil && tv.Value.Kind() == constant.String && isIdent(kv.Value, "true") {
							keys = append(keys, constant.StringVal(tv.Value))
						} else if call, ok := kv.Key.(*ast.CallExpr); ok && len(call.Args) == 1 && isIdent(kv.Value, "true") {
							s, _ := (&astCtx{pkg: p}).constString(call.Args[0])
							grp := ""
							if sel, ok := call.Fun.(*ast.SelectorExpr); ok {
								grp = fmt.Sprint(sel.X)
							}
							keys = append(keys, grp+"/"+s)
						} else {
							fail("F7: %s.%s: unrecognised map entry", pkg, name)
						}
					}
				}
			}
		}
		if !found {
			fail("F7: %s.%s not found", pkg, name)
		}
		return keys
	}
	facts := `import Psa.Str
/-! GENERATED by /verif/go/factx from /repo — do not edit. Structural facts about the code. -/
namespace PSA.Generated
open PSA

/-- F4: per registered revision (check id, minimum minor): the k8s API struct fields its function (with the closures and
    the package-local functions it calls) reads -/
def readSets : List ((Str × Nat) × List Str) :=
  [
` + strings.Join(readLines, ",\n") + `
  ]

/-- F5: writes through values reached from the pod parameters, per revision -/
def podWrites : List Str :=
  [
` + strings.Join(writeLines, ",\n") + `
  ]

/-- F6: (package, function, field, origin of the pointer) for every store to a field of *AdmissionResponse -/
def responseStores : List (Str × Str × Str × Str) :=
  [
` + strings.Join(respStores, ",\n") + `
  ]

/-- F8: (package, function, variable) for every store to a package-level variable outside init -/
def globalStores : List (Str × Str × Str) :=
  [
` + strings.Join(globalStores, ",\n") + `
  ]

/-- F9: (package, function, what) for every write, outside init, to state that outlives a request: a store or map update
    through a pointer method receiver or through a package-level variable, and every sync / sync/atomic call on such state -/
def stateWrites : List (Str × Str × Str) :=
  [
` + strings.Join(stateWrites, ",\n") + `
  ]

/-- F7: constants and small tables -/
def namespaceMaxPodsToCheck : Nat := ` + constInt("admission", "defaultNamespaceMaxPodsToCheck") + `
def namespacePodCheckTimeoutNs : Nat := ` + constInt("admission", "defaultNamespacePodCheckTimeout") + `
def maxRequestSize : Nat := ` + constInt("cmd/webhook/server", "maxRequestSize") + `
def ignoredPodSubresources : List Str := ` + leanStrs(mapKeys("admission", "ignoredPodSubresources")) + `
def podSpecResources : List Str := ` + leanStrs(mapKeys("admission", "defaultPodSpecResources")) + `

end PSA.Generated
`
	writeIfChanged(filepath.Join(*out, "Facts.lean"), facts)

	if len(failures) > 0 {
		for _, f := range failures {
			fmt.Fprintln(os.Stderr, "factx:", f)
		}
		os.Exit(1)
	}
	fmt.Printf("factx: %d revisions, %d response stores, %d global stores, %d pod writes\n", len(revs), len(respStores), len(globalStores), len(writeLines))
}
